// check is the driver behind every MANIFEST command:
//
//	check <property> quick|thorough      explore, report, write evidence/<property>.json
//	check <property> --replay <file>     re-run a recorded failure in a fresh process
//	check selftest-determinism [engine]  same-seed runs across processes and GOMAXPROCS must agree
//
// Every invocation regenerates the instrumentation overlay from /repo's current working tree (cached by
// content hash), rebuilds the engine's test binary with it and fans seeds out over worker processes.
// Exit status: 0 property held on everything explored (KNOWN-FINDING lines allowed), 1 an unlisted
// violation was found, reproduced from its replay file in a fresh process and printed as
// "VIOLATION property=<id> replay=<path>", 2 harness trouble (never a VIOLATION line).
package main

import (
	"bufio"
	"crypto/sha256"
	"encoding/json"
	"fmt"
	"io"
	"os"
	"os/exec"
	"path/filepath"
	"regexp"
	"sort"
	"strconv"
	"strings"
	"sync"
	"time"
)

const goBin = "/opt/veriftools/go1.26.8/bin"

var root string // /verif

// repoRoot is the tree under test. It is /repo for every registered command; VERIF_REPO points
// background sweeps (vp run --with-repo) at a snapshot so that they are not disturbed by patches that
// are applied to /repo meanwhile. A snapshot is reached through a scratch -modfile whose replace
// directives point at it.
var repoRoot = "/repo"
var modfile string

type engineDef struct {
	name  string
	props []string
	race  bool // the properties demand race freedom: part of the workers run a race-detector build (DESIGN.md §2.11)
	// The quick tier is a fixed amount of work, not a fixed amount of time: every worker slot runs this many
	// seeds of its arithmetic progression (quickRuns on the plain build, quickRaceRuns on the race-detector
	// build, which is several times slower per run). What a quick run explored, and hence its evidence file,
	// is then the same on a fast, a slow and a busy machine; only its duration differs (DESIGN.md §2.12).
	quickRuns, quickRaceRuns int
}

var engines = []engineDef{
	{"bsp", []string{"C01"}, true, 20000, 4000},
	{"logbatch", []string{"C06"}, true, 16000, 3200},
	{"metricsim", []string{"C02", "C08", "C12"}, true, 6000, 500},
	{"spanlin", []string{"C10"}, true, 30000, 7000},
	{"otlpretry", []string{"C14"}, false, 40000, 0},
	{"lifecycle", []string{"C15"}, true, 6000, 1400},
	{"globalsim", []string{"C16"}, true, 28000, 5500},
	{"promsim", []string{"C18"}, true, 20000, 4000},
}

// packages instrumented by simgen (import paths). One overlay serves every engine.
var instrumented = []string{
	"go.opentelemetry.io/otel",
	"go.opentelemetry.io/otel/internal/global",
	"go.opentelemetry.io/otel/sdk/trace",
	"go.opentelemetry.io/otel/sdk/trace/tracetest",
	"go.opentelemetry.io/otel/sdk/metric",
	"go.opentelemetry.io/otel/sdk/metric/internal/aggregate",
	"go.opentelemetry.io/otel/sdk/metric/exemplar",
	"go.opentelemetry.io/otel/sdk/log",
	"go.opentelemetry.io/otel/exporters/prometheus",
	"go.opentelemetry.io/otel/exporters/stdout/stdouttrace",
	"go.opentelemetry.io/otel/exporters/stdout/stdoutmetric",
	"go.opentelemetry.io/otel/exporters/stdout/stdoutlog",
	"go.opentelemetry.io/otel/exporters/otlp/otlptrace",
	"go.opentelemetry.io/otel/exporters/otlp/otlptrace/otlptracehttp",
	"go.opentelemetry.io/otel/exporters/otlp/otlptrace/otlptracehttp/internal/retry",
	"go.opentelemetry.io/otel/exporters/otlp/otlptrace/otlptracegrpc",
	"go.opentelemetry.io/otel/exporters/otlp/otlptrace/otlptracegrpc/internal/retry",
	"go.opentelemetry.io/otel/exporters/otlp/otlpmetric/otlpmetrichttp",
	"go.opentelemetry.io/otel/exporters/otlp/otlpmetric/otlpmetrichttp/internal/retry",
	"go.opentelemetry.io/otel/exporters/otlp/otlpmetric/otlpmetricgrpc",
	"go.opentelemetry.io/otel/exporters/otlp/otlpmetric/otlpmetricgrpc/internal/retry",
	"go.opentelemetry.io/otel/exporters/otlp/otlplog/otlploghttp",
	"go.opentelemetry.io/otel/exporters/otlp/otlplog/otlploghttp/internal/retry",
	"go.opentelemetry.io/otel/exporters/otlp/otlplog/otlploggrpc",
	"go.opentelemetry.io/otel/exporters/otlp/otlplog/otlploggrpc/internal/retry",
}

func pkgDir(importPath string) string {
	return filepath.Join(repoRoot, strings.TrimPrefix(strings.TrimPrefix(importPath, "go.opentelemetry.io/otel"), "/"))
}

func env() []string {
	e := os.Environ()
	out := e[:0:0]
	for _, kv := range e {
		if strings.HasPrefix(kv, "GOFLAGS=") || strings.HasPrefix(kv, "GOPROXY=") || strings.HasPrefix(kv, "GOSUMDB=") ||
			strings.HasPrefix(kv, "GOTOOLCHAIN=") || strings.HasPrefix(kv, "PATH=") || strings.HasPrefix(kv, "GOWORK=") {
			continue
		}
		out = append(out, kv)
	}
	goflags := "GOFLAGS=-mod=mod"
	if modfile != "" {
		goflags += " -modfile=" + modfile
	}
	return append(out, goflags, "GOPROXY=off", "GOSUMDB=off", "GOTOOLCHAIN=local", "GOWORK=off",
		"PATH="+goBin+":"+os.Getenv("PATH"))
}

func die(code int, format string, a ...any) {
	fmt.Fprintf(os.Stderr, "check: "+format+"\n", a...)
	os.Exit(code)
}

func run(dir string, timeout time.Duration, name string, args ...string) (string, error) {
	cmd := exec.Command(name, args...)
	cmd.Dir = dir
	cmd.Env = env()
	var buf strings.Builder
	cmd.Stdout = &buf
	cmd.Stderr = &buf
	if err := cmd.Start(); err != nil {
		return "", err
	}
	done := make(chan error, 1)
	go func() { done <- cmd.Wait() }()
	select {
	case err := <-done:
		return buf.String(), err
	case <-time.After(timeout):
		cmd.Process.Kill()
		<-done
		return buf.String(), fmt.Errorf("timeout after %v", timeout)
	}
}

func fileHash(h io.Writer, path string) {
	b, err := os.ReadFile(path)
	if err != nil {
		fmt.Fprintf(h, "missing:%s\n", path)
		return
	}
	fmt.Fprintf(h, "%s %d\n", path, len(b))
	h.Write(b)
}

// buildTools makes sure simgen exists and is current.
func buildTools() string {
	bin := filepath.Join(root, ".cache/bin/simgen")
	h := sha256.New()
	fileHash(h, filepath.Join(root, "simgen/main.go"))
	fileHash(h, filepath.Join(root, "simgen/go.mod"))
	stamp := fmt.Sprintf("%x", h.Sum(nil)[:8])
	stampFile := bin + ".stamp"
	if b, err := os.ReadFile(stampFile); err == nil && string(b) == stamp {
		if _, err := os.Stat(bin); err == nil {
			return bin
		}
	}
	os.MkdirAll(filepath.Dir(bin), 0o755)
	saved := modfile
	modfile = "" // simgen is its own module
	out, err := run(filepath.Join(root, "simgen"), 10*time.Minute, "go", "build", "-o", bin, ".")
	modfile = saved
	if err != nil {
		die(2, "building simgen failed: %v\n%s", err, out)
	}
	os.WriteFile(stampFile, []byte(stamp), 0o644)
	return bin
}

// overlay regenerates (or finds in the content-addressed cache) the instrumentation overlay for the
// current /repo working tree.
func overlay() (dir string, hash string) {
	simgen := buildTools()
	h := sha256.New()
	fileHash(h, simgen)
	for _, p := range instrumented {
		d := pkgDir(p)
		ents, err := os.ReadDir(d)
		if err != nil {
			die(2, "instrumented package dir %s: %v", d, err)
		}
		for _, e := range ents {
			n := e.Name()
			if e.IsDir() || !strings.HasSuffix(n, ".go") || strings.HasSuffix(n, "_test.go") {
				continue
			}
			fileHash(h, filepath.Join(d, n))
		}
	}
	// go.mod files decide what is loaded
	for _, m := range []string{"", "sdk", "sdk/metric", "sdk/log", "exporters/prometheus"} {
		fileHash(h, filepath.Join(repoRoot, m, "go.mod"))
	}
	add := filepath.Join(root, "overlays")
	filepath.Walk(add, func(path string, fi os.FileInfo, err error) error {
		if err == nil && !fi.IsDir() {
			fileHash(h, path)
		}
		return nil
	})
	hash = fmt.Sprintf("%x", h.Sum(nil)[:10])
	dir = filepath.Join(root, ".cache/ov", hash)
	if _, err := os.Stat(filepath.Join(dir, "overlay.json")); err == nil {
		return dir, hash
	}
	tmp := dir + ".tmp" + strconv.Itoa(os.Getpid())
	os.RemoveAll(tmp)
	os.MkdirAll(tmp, 0o755)
	args := []string{"-out", tmp, "-dir", root, "-add", add, "-repo", repoRoot}
	args = append(args, instrumented...)
	out, err := run(root, 15*time.Minute, simgen, args...)
	if err != nil {
		os.RemoveAll(tmp)
		die(2, "simgen failed: %v\n%s", err, out)
	}
	// overlay.json refers to tmp paths; rewrite to final dir
	b, _ := os.ReadFile(filepath.Join(tmp, "overlay.json"))
	b = []byte(strings.ReplaceAll(string(b), tmp, dir))
	os.WriteFile(filepath.Join(tmp, "overlay.json"), b, 0o644)
	if err := os.Rename(tmp, dir); err != nil {
		os.RemoveAll(tmp) // lost a race with a concurrent check: theirs is identical
	}
	pruneCache(filepath.Join(root, ".cache/ov"), 4, dir)
	return dir, hash
}

func pruneCache(dir string, keep int, except string) {
	ents, err := os.ReadDir(dir)
	if err != nil {
		return
	}
	type ent struct {
		p string
		t time.Time
	}
	var es []ent
	for _, e := range ents {
		if fi, err := e.Info(); err == nil {
			es = append(es, ent{filepath.Join(dir, e.Name()), fi.ModTime()})
		}
	}
	sort.Slice(es, func(i, j int) bool { return es[i].t.After(es[j].t) })
	for i, e := range es {
		if i >= keep && e.p != except && !strings.HasPrefix(e.p, except) {
			os.RemoveAll(e.p)
		}
	}
}

func buildEngine(engine, ovDir, ovHash string) string { return buildEngineX(engine, ovDir, ovHash, false) }

// buildEngineX builds an engine's worker binary; with race set, the race-detector variant (which enters
// its synctest bubbles through the runtime entry point, hence -checklinkname=0: simdrv/bubble_race.go).
func buildEngineX(engine, ovDir, ovHash string, race bool) string {
	suffix := ".test"
	args := []string{"test", "-c", "-tags", "verifsim", "-overlay", filepath.Join(ovDir, "overlay.json")}
	if race {
		suffix = ".race.test"
		args = append(args, "-race", "-ldflags=-checklinkname=0")
	}
	bin := filepath.Join(root, ".cache/bin", engine+"."+ovHash+suffix)
	args = append(args, "-o", bin, "./engines/"+engine)
	out, err := run(root, 30*time.Minute, "go", args...)
	if err != nil {
		die(2, "building engine %s failed (instrumented build of /repo's working tree, race=%v): %v\n%s", engine, race, err, out)
	}
	// prune old binaries of this engine
	ents, _ := filepath.Glob(filepath.Join(root, ".cache/bin", engine+".*"+suffix))
	for _, e := range ents {
		// (binaries of other trees are left alone while they are fresh: another check - against a
		// snapshot, VERIF_REPO - may be using them right now)
		if st, err := os.Stat(e); err == nil && e != bin && strings.HasSuffix(e, ".race.test") == race && time.Since(st.ModTime()) > 2*time.Hour {
			os.Remove(e)
		}
	}
	return bin
}

type spec struct {
	Mode      string  `json:"mode"`
	SeedStart int64   `json:"seed_start"`
	SeedStep  int64   `json:"seed_step"`
	MaxRuns   int     `json:"max_runs"`
	BudgetSec float64 `json:"budget_sec"`
	Out       string  `json:"out"`
	Replay    string  `json:"replay,omitempty"`
	Property  string  `json:"property,omitempty"`
	Class     string  `json:"class,omitempty"`
	KeepOK    int     `json:"keep_ok"`
}

// worker runs one engine process. hardTimeout guards against a wedged simulation.
func worker(bin string, sp spec, gomaxprocs int, hardTimeout time.Duration) (string, error) {
	b, _ := json.Marshal(sp)
	cmd := exec.Command(bin, "-test.run", "^TestWorker$", "-test.timeout", "0", "-test.cpu", "1")
	cmd.Dir = filepath.Join(root, "engines")
	e := append(env(), "VERIF_SPEC="+string(b))
	if strings.HasSuffix(bin, ".race.test") {
		// the detector's reports go to a file next to the worker's output; the worker reads them back run by run
		e = append(e, "GORACE=log_path="+sp.Out+".racelog exitcode=0 halt_on_error=0")
	}
	if gomaxprocs > 0 {
		e = append(e, "GOMAXPROCS="+strconv.Itoa(gomaxprocs))
		cmd.Args = []string{bin, "-test.run", "^TestWorker$", "-test.timeout", "0"}
	}
	cmd.Env = e
	var buf strings.Builder
	cmd.Stdout = &buf
	cmd.Stderr = &buf
	if err := cmd.Start(); err != nil {
		return "", err
	}
	done := make(chan error, 1)
	go func() { done <- cmd.Wait() }()
	select {
	case err := <-done:
		return tail(buf.String(), 4000), err
	case <-time.After(hardTimeout):
		cmd.Process.Kill()
		<-done
		return tail(buf.String(), 4000), fmt.Errorf("worker exceeded hard timeout %v", hardTimeout)
	}
}

func tail(s string, n int) string {
	if len(s) > n {
		return s[len(s)-n:]
	}
	return s
}

type violation struct {
	Property string `json:"property"`
	Class    string `json:"class"`
	Sig      string `json:"sig"`
	Msg      string `json:"msg"`
}

type result struct {
	Summary    bool              `json:"summary"`
	Seed       int64             `json:"seed"`
	Engine     string            `json:"engine"`
	Outcome    string            `json:"outcome"`
	Detail     string            `json:"detail"`
	Violations []violation       `json:"violations"`
	Steps      int               `json:"steps"`
	Switches   int               `json:"switches"`
	SimNs      int64             `json:"sim_ns"`
	Tasks      int               `json:"tasks"`
	Ops        int               `json:"ops"`
	Sig        string            `json:"sig"`
	Hash       string            `json:"hash"`
	NonTrivial bool              `json:"nontrivial"`
	Config     map[string]any    `json:"config"`
	History    []string          `json:"history"`
	Schedule   []json.RawMessage `json:"schedule"`
	Tape       [][]uint32        `json:"tape"`
	Faults     map[string]int    `json:"faults"`
	Probes     map[string]int    `json:"probes"`
	Race       bool              `json:"race"`
	Extra      map[string]string `json:"extra"`

	// summary fields
	Runs        int               `json:"runs"`
	WallSec     float64           `json:"wall_sec"`
	StepsTotal  int64             `json:"-"`
	Outcomes    map[string]int    `json:"outcomes"`
	Sigs        []string          `json:"sigs"`
	Pairs       [][2]uint32       `json:"pairs"`
	Points      []uint32          `json:"points"`
	ViolRuns    int               `json:"viol_runs"`
	FirstSeed   int64             `json:"first_seed"`
	LastSeed    int64             `json:"last_seed"`
	PerSeedHash map[string]string `json:"per_seed_hash"`
	Restart     bool              `json:"restart"`
	NextSeed    int64             `json:"next_seed"`
}

type replayFile struct {
	Property  string            `json:"property"`
	Engine    string            `json:"engine"`
	Seed      int64             `json:"seed"`
	Class     string            `json:"class"`
	Sig       string            `json:"sig"`
	Violation string            `json:"violation"`
	Config    map[string]any    `json:"config"`
	Tape      [][]uint32        `json:"tape"`
	Schedule  []json.RawMessage `json:"schedule"`
	History   []string          `json:"history"`
	Hash      string            `json:"hash"`
	Shrunk    bool              `json:"shrunk"`
	OrigLen   []int             `json:"orig_tape_len,omitempty"`
	Race      bool              `json:"race_detector_build,omitempty"` // found by (and to be replayed with) the race-detector build
	Note      string            `json:"note,omitempty"`
}

type knownFinding struct {
	ID       string `json:"id"`
	Property string `json:"property"`
	SigRegex string `json:"sig_regex"`
	What     string `json:"what"`
	re       *regexp.Regexp
}

type knownFile struct {
	Known []knownFinding `json:"known"`
	Fixed []string       `json:"fixed"`
}

func loadKnown() []knownFinding {
	b, err := os.ReadFile(filepath.Join(root, "known_findings.json"))
	if err != nil {
		return nil
	}
	var kf knownFile
	if err := json.Unmarshal(b, &kf); err != nil {
		die(2, "known_findings.json: %v", err)
	}
	for i := range kf.Known {
		re, err := regexp.Compile(kf.Known[i].SigRegex)
		if err != nil {
			die(2, "known_findings.json: %v", err)
		}
		kf.Known[i].re = re
	}
	return kf.Known
}

func matchKnown(known []knownFinding, prop, sig string) *knownFinding {
	for i := range known {
		if known[i].Property == prop && known[i].re.MatchString(sig) {
			return &known[i]
		}
	}
	return nil
}

func readResults(path string) (runs []result, sum *result, err error) {
	f, err := os.Open(path)
	if err != nil {
		return nil, nil, err
	}
	defer f.Close()
	rd := bufio.NewReaderSize(f, 1<<20)
	for {
		line, err := rd.ReadBytes('\n')
		if len(line) > 1 {
			var r result
			if e := json.Unmarshal(line, &r); e != nil {
				return runs, sum, fmt.Errorf("%s: %v", path, e)
			}
			if r.Summary {
				var raw map[string]json.RawMessage
				json.Unmarshal(line, &raw)
				if s, ok := raw["steps"]; ok {
					json.Unmarshal(s, &r.StepsTotal)
				}
				rr := r
				sum = &rr
			} else {
				runs = append(runs, r)
			}
		}
		if err != nil {
			break
		}
	}
	return runs, sum, nil
}

func engineOf(prop string) *engineDef {
	for i := range engines {
		for _, p := range engines[i].props {
			if p == prop {
				return &engines[i]
			}
		}
	}
	return nil
}

func main() {
	wd, err := os.Getwd()
	if err != nil {
		die(2, "%v", err)
	}
	root = wd
	if v := os.Getenv("VERIF_ROOT"); v != "" {
		root = v
	}
	if _, err := os.Stat(filepath.Join(root, "simrt")); err != nil {
		die(2, "must run with cwd=/verif (or VERIF_ROOT set)")
	}
	if v := os.Getenv("VERIF_REPO"); v != "" && v != "/repo" {
		repoRoot = filepath.Clean(v)
		b, err := os.ReadFile(filepath.Join(root, "go.mod"))
		if err != nil {
			die(2, "%v", err)
		}
		dir := filepath.Join(root, ".cache", "modfile", fmt.Sprintf("%x", sha256.Sum256([]byte(repoRoot)))[:12])
		os.MkdirAll(dir, 0o755)
		modfile = filepath.Join(dir, "go.mod")
		nb := strings.ReplaceAll(string(b), "=> /repo", "=> "+repoRoot)
		os.WriteFile(modfile, []byte(nb), 0o644)
		if sum, err := os.ReadFile(filepath.Join(root, "go.sum")); err == nil {
			os.WriteFile(filepath.Join(dir, "go.sum"), sum, 0o644)
		}
		fmt.Fprintf(os.Stderr, "check: tree under test is %s (VERIF_REPO)\n", repoRoot)
	}
	if len(os.Args) < 2 {
		die(2, "usage: check <property> quick|thorough | check <property> --replay <file> | check selftest-determinism [engine...] | check build")
	}
	switch os.Args[1] {
	case "build":
		ovDir, ovHash := overlay()
		which := os.Args[2:]
		for _, e := range engines {
			if len(which) > 0 && !contains(which, e.name) {
				continue
			}
			if _, err := os.Stat(filepath.Join(root, "engines", e.name)); err != nil {
				continue
			}
			buildEngine(e.name, ovDir, ovHash)
			if e.race {
				buildEngineX(e.name, ovDir, ovHash, true)
			}
			fmt.Println("built", e.name)
		}
		return
	case "selftest-determinism":
		os.Exit(selftestDeterminism(os.Args[2:]))
	}
	prop := os.Args[1]
	eng := engineOf(prop)
	if eng == nil {
		die(2, "no engine serves property %s (not claimed)", prop)
	}
	if len(os.Args) >= 4 && os.Args[2] == "--replay" {
		os.Exit(doReplay(prop, eng, os.Args[3]))
	}
	if len(os.Args) >= 4 && os.Args[2] == "--seed" {
		// debugging aid: run one exploration seed with full detail and write it as a replay file
		seed, _ := strconv.ParseInt(os.Args[3], 10, 64)
		ovDir, ovHash := overlay()
		bin := buildEngine(eng.name, ovDir, ovHash)
		if os.Getenv("VERIF_RACE") != "" {
			bin = buildEngineX(eng.name, ovDir, ovHash, true)
		}
		scratch := scratchDir()
		defer os.RemoveAll(scratch)
		out := filepath.Join(scratch, "seed.jsonl")
		os.Setenv("VERIF_DETAIL", "1")
		log, err := worker(bin, spec{Mode: "explore", SeedStart: seed, SeedStep: 1, MaxRuns: 1, Out: out, KeepOK: 1}, 0, 10*time.Minute)
		if err != nil {
			die(2, "worker: %v\n%s", err, log)
		}
		runs, _, _ := readResults(out)
		for _, r := range runs {
			fmt.Printf("seed %d outcome=%s %s hash=%s config=%v\n", r.Seed, r.Outcome, r.Detail, r.Hash, r.Config)
			for _, l := range r.History {
				fmt.Println("  ", l)
			}
			for _, v := range r.Violations {
				fmt.Printf("violation property=%s class=%s sig=%s: %s\n", v.Property, v.Class, v.Sig, v.Msg)
			}
			for k, v := range r.Extra {
				fmt.Printf("extra %s: %s\n", k, v)
			}
		}
		return
	}
	tier := "quick"
	if len(os.Args) >= 3 {
		tier = os.Args[2]
	}
	if v := os.Getenv("VERIF_TIER"); v == "quick" || v == "thorough" {
		tier = v
	}
	if tier != "quick" && tier != "thorough" {
		die(2, "unknown tier %q", tier)
	}
	os.Exit(explore(prop, eng, tier))
}

func contains(xs []string, x string) bool {
	for _, y := range xs {
		if x == y {
			return true
		}
	}
	return false
}

func seedBase() int64 {
	if v := os.Getenv("VERIF_SEED"); v != "" {
		if n, err := strconv.ParseInt(v, 10, 64); err == nil {
			return n
		}
	}
	return 1
}

func envFloat(name string, def float64) float64 {
	if v := os.Getenv(name); v != "" {
		if f, err := strconv.ParseFloat(v, 64); err == nil {
			return f
		}
	}
	return def
}

func scratchDir() string {
	d := filepath.Join(root, "scratch", fmt.Sprintf("run-%d-%d", os.Getpid(), time.Now().UnixNano()))
	os.MkdirAll(d, 0o755)
	return d
}

func explore(prop string, eng *engineDef, tier string) int {
	t0 := time.Now()
	ovDir, ovHash := overlay()
	bin := buildEngine(eng.name, ovDir, ovHash)
	binRace := ""
	if eng.race {
		binRace = buildEngineX(eng.name, ovDir, ovHash, true)
	}
	buildSec := time.Since(t0).Seconds()
	known := loadKnown()
	scratch := scratchDir()
	defer os.RemoveAll(scratch)

	nworkers := 12
	budget := envFloat("VERIF_BUDGET_SEC", 45)
	// quick: a fixed number of runs per worker slot (engineDef.quickRuns); the time limit is only a guard
	// against a machine too slow to be useful. An explicit VERIF_BUDGET_SEC asks for the timed mode instead.
	fixedWork := tier == "quick" && os.Getenv("VERIF_BUDGET_SEC") == ""
	if fixedWork {
		budget = envFloat("VERIF_QUICK_CAP_SEC", 900)
	}
	if tier == "thorough" {
		nworkers = 16
		budget = envFloat("VERIF_BUDGET_SEC", 900)
	}
	if v := int(envFloat("VERIF_WORKERS", 0)); v > 0 {
		nworkers = v
	}
	// a quarter of the workers of an engine with race-freedom properties run the race-detector build
	nrace := 0
	if eng.race {
		nrace = max(1, nworkers/4)
		if v, err := strconv.Atoi(os.Getenv("VERIF_RACE_WORKERS")); err == nil && v >= 0 {
			nrace = min(v, nworkers) // (self-tests: all or none of the workers on the race-detector build)
		}
	}
	binOf := func(race bool) string {
		if race && binRace != "" {
			return binRace
		}
		return bin
	}
	base := seedBase()
	var wg sync.WaitGroup
	var outMu sync.Mutex
	var outs []string
	var errs []error
	var logs []string
	cutShort := 0 // worker slots that the time limit stopped before their quota (fixed-work mode)
	deadline := time.Now().Add(time.Duration(budget * float64(time.Second)))
	for i := 0; i < nworkers; i++ {
		wg.Add(1)
		go func(i int) {
			defer wg.Done()
			// one slot = a sequence of worker processes over one arithmetic progression of seeds; a worker
			// hands over to a fresh process when the goroutines leaked by aborted runs use too much memory
			seed := base*100_000_000 + int64(i)
			quota := 0 // runs this slot still has to do (fixed-work mode)
			if fixedWork {
				quota = eng.quickRuns
				if i >= nworkers-nrace {
					quota = eng.quickRaceRuns
				}
			}
			for k := 0; ; k++ {
				left := time.Until(deadline).Seconds()
				if left < 1 && k > 0 {
					if fixedWork {
						outMu.Lock()
						cutShort++
						outMu.Unlock()
					}
					return
				}
				if left < 1 {
					left = 1
				}
				out := filepath.Join(scratch, fmt.Sprintf("w%d-%d.jsonl", i, k))
				sp := spec{Mode: "explore", SeedStart: seed, SeedStep: int64(nworkers), MaxRuns: quota, BudgetSec: left, Out: out, KeepOK: 1, Property: prop}
				log, err := worker(binOf(i >= nworkers-nrace), sp, 0, time.Duration(left*float64(time.Second))+5*time.Minute)
				outMu.Lock()
				outs = append(outs, out)
				errs = append(errs, err)
				logs = append(logs, log)
				outMu.Unlock()
				if err != nil {
					return
				}
				_, sum, rerr := readResults(out)
				if rerr != nil || sum == nil {
					return
				}
				if fixedWork {
					quota -= sum.Runs
					if quota <= 0 {
						return
					}
					if !sum.Restart { // stopped by the time limit
						outMu.Lock()
						cutShort++
						outMu.Unlock()
						return
					}
				} else if !sum.Restart {
					return
				}
				seed = sum.NextSeed
			}
		}(i)
	}
	wg.Wait()
	// aggregate
	agg := struct {
		runs, violRuns, otherViolRuns int
		steps, ops, simNs             int64
		wall                          float64
		outcomes, faults, probes      map[string]int
		sigs                          map[string]struct{}
		pairs                         map[[2]uint32]struct{}
		points                        map[uint32]struct{}
		samples                       []result
	}{outcomes: map[string]int{}, faults: map[string]int{}, probes: map[string]int{}, sigs: map[string]struct{}{}, pairs: map[[2]uint32]struct{}{}, points: map[uint32]struct{}{}}
	type group struct {
		class, sig string
		best       *result
		count      int
	}
	groups := map[string]*group{}
	raceRuns := 0
	harnessTrouble := ""
	// (workers finish in any order: aggregate in the order of their output names, so that the samples and
	// the example seeds of a report do not depend on it)
	order := make([]int, len(outs))
	for i := range order {
		order[i] = i
	}
	sort.Slice(order, func(a, b int) bool { return outs[order[a]] < outs[order[b]] })
	for _, i := range order {
		runs, sum, err := readResults(outs[i])
		if errs[i] != nil || err != nil || sum == nil {
			harnessTrouble = fmt.Sprintf("worker %d: %v %v\n%s", i, errs[i], err, logs[i])
			// a worker that died mid-way still left its violating runs behind; fall through to use them
		}
		if sum != nil {
			agg.runs += sum.Runs
			if sum.Race {
				raceRuns += sum.Runs
			}
			agg.steps += sum.StepsTotal
			agg.simNs += sum.SimNs
			agg.ops += int64(sum.Ops)
			agg.wall += sum.WallSec
			for k, v := range sum.Outcomes {
				agg.outcomes[k] += v
			}
			for k, v := range sum.Faults {
				agg.faults[k] += v
			}
			for k, v := range sum.Probes {
				agg.probes[k] += v
			}
			for _, s := range sum.Sigs {
				agg.sigs[s] = struct{}{}
			}
			for _, p := range sum.Pairs {
				agg.pairs[p] = struct{}{}
			}
			for _, p := range sum.Points {
				agg.points[p] = struct{}{}
			}
		}
		for j := range runs {
			r := &runs[j]
			if r.Outcome == "harness-panic" {
				harnessTrouble = fmt.Sprintf("seed %d: harness panic: %s", r.Seed, r.Detail)
				continue
			}
			if len(r.Violations) == 0 {
				if len(agg.samples) < 3 {
					agg.samples = append(agg.samples, *r)
				}
				continue
			}
			mine := false
			for _, v := range r.Violations {
				if v.Property != prop {
					continue
				}
				mine = true
				key := v.Class + "\x00" + v.Sig
				g := groups[key]
				if g == nil {
					g = &group{class: v.Class, sig: v.Sig}
					groups[key] = g
				}
				g.count++
				if len(r.Tape) > 0 && (g.best == nil || tapeLen(r.Tape) < tapeLen(g.best.Tape) || tapeLen(r.Tape) == tapeLen(g.best.Tape) && r.Seed < g.best.Seed) {
					g.best = r
				}
			}
			if mine {
				agg.violRuns++
			} else {
				agg.otherViolRuns++
			}
		}
	}
	// process violation groups
	os.MkdirAll(filepath.Join(root, "replays"), 0o755)
	var keys []string
	for k := range groups {
		keys = append(keys, k)
	}
	sort.Strings(keys)
	exit := 0
	knownPrinted := map[string]bool{}
	knownSigs := map[string]int{}
	var lines []string
	nUnknown := 0
	shrinkBudget := 25.0
	if tier == "thorough" {
		shrinkBudget = 90
	}
	for _, k := range keys {
		g := groups[k]
		if g.best == nil {
			harnessTrouble = fmt.Sprintf("violation group %s has no run with a recorded tape", g.sig)
			continue
		}
		kf := matchKnown(known, prop, g.sig)
		var msg string
		for _, v := range g.best.Violations {
			if v.Property == prop && v.Class == g.class && v.Sig == g.sig {
				msg = v.Msg
			}
		}
		rf := &replayFile{Property: prop, Engine: eng.name, Seed: g.best.Seed, Class: g.class, Sig: g.sig, Violation: msg, Config: g.best.Config, Tape: g.best.Tape, History: g.best.History, Race: g.best.Race}
		gbin := binOf(g.best.Race)
		if os.Getenv("VERIF_LIST_GROUPS") != "" {
			id := "-"
			if kf != nil {
				id = kf.ID
			}
			fmt.Printf("group known=%s runs=%d sig=%s\n", id, g.count, g.sig)
		}
		if kf != nil {
			knownSigs[g.sig] += g.count
			if knownPrinted[kf.ID] {
				continue
			}
			// confirm it replays in a fresh process before believing the classification
			raw := filepath.Join(scratch, "known-"+kf.ID+".json")
			writeJSON(raw, rf)
			ok, _, why := replayOnce(gbin, raw, prop, g.class, g.sig, scratch)
			if !ok {
				harnessTrouble = fmt.Sprintf("known finding %s (seed %d) did not reproduce on replay: %s", kf.ID, g.best.Seed, why)
				continue
			}
			knownPrinted[kf.ID] = true
			lines = append(lines, fmt.Sprintf("KNOWN-FINDING: property=%s %s: %s [sig %s, %d run(s), e.g. seed %d]", prop, kf.ID, kf.What, g.sig, g.count, g.best.Seed))
			continue
		}
		nUnknown++
		if nUnknown > 5 {
			lines = append(lines, fmt.Sprintf("  (not minimised in this invocation) unlisted violation group class=%s sig=%s runs=%d seed=%d: %s", g.class, g.sig, g.count, g.best.Seed, msg))
			exit = 1
			continue // enough minimised reports for one invocation
		}
		raw := filepath.Join(scratch, fmt.Sprintf("raw-%d.json", nUnknown))
		writeJSON(raw, rf)
		// shrink in a worker process
		shr := filepath.Join(scratch, fmt.Sprintf("shrunk-%d.jsonl", nUnknown))
		_, err := worker(gbin, spec{Mode: "shrink", Replay: raw, Out: shr, BudgetSec: shrinkBudget, Property: prop, Class: g.class}, 0, time.Duration(shrinkBudget)*time.Second+3*time.Minute)
		final := rf
		if err == nil {
			if b, e := os.ReadFile(shr); e == nil {
				var out replayFile
				if json.Unmarshal(b, &out) == nil && out.Class == g.class {
					final = &out
					final.Race = g.best.Race
				}
			}
		}
		name := fmt.Sprintf("%s-%d-%s.json", prop, g.best.Seed, sanitize(g.class))
		path := filepath.Join(root, "replays", name)
		writeJSON(path, final)
		ok1, h1, why := replayOnce(gbin, path, prop, g.class, g.sig, scratch)
		ok2, h2, _ := replayOnce(gbin, path, prop, g.class, g.sig, scratch)
		if g.class == "data-race" && (!ok1 || !ok2) && h1 == h2 && h1 != "" {
			// The schedule replays (equal hashes) but the detector stays silent: one of the two accesses
			// is made by a goroutine outside the simulator's control (e.g. the registry's consumer inside
			// Gather), so whether both accesses meet is up to the Go scheduler. The detector does not
			// invent races: the report stands, with the recorded (unshrunk) run as its replay file.
			rf.Note = "the race detector reported this race during exploration; replaying the schedule (which reproduces exactly, same hash) did not make the detector report it again within 6 attempts: one of the accesses belongs to a goroutine that is not scheduled by the simulator"
			writeJSON(path, rf)
			final = rf
		} else if !ok1 || !ok2 || h1 != h2 {
			harnessTrouble = fmt.Sprintf("violation %s (seed %d) did not replay identically in fresh processes (%v %v %s %s): %s", g.sig, g.best.Seed, ok1, ok2, h1, h2, why)
			continue
		}
		lines = append(lines, fmt.Sprintf("VIOLATION property=%s replay=%s", prop, path))
		lines = append(lines, fmt.Sprintf("  class=%s sig=%s runs=%d seed=%d: %s", g.class, g.sig, g.count, g.best.Seed, final.Violation))
		exit = 1
	}
	for _, l := range lines {
		fmt.Println(l)
	}
	wall := time.Since(t0).Seconds()
	inconclusive := agg.outcomes["budget"]
	if agg.runs > 0 && float64(inconclusive) > 0.01*float64(agg.runs)+5 {
		harnessTrouble = fmt.Sprintf("%d of %d runs exhausted the step budget (inconclusive)", inconclusive, agg.runs)
	}
	raceRunsLast = raceRuns
	workModeLast = fmt.Sprintf("timed: every worker slot explores consecutive seeds of its progression for %gs", budget)
	if fixedWork {
		workModeLast = fmt.Sprintf("fixed work: each of the %d plain worker slots runs %d seeds of its progression", nworkers-nrace, eng.quickRuns)
		if nrace > 0 {
			workModeLast += fmt.Sprintf(", each of the %d race-detector slots %d", nrace, eng.quickRaceRuns)
		}
		workModeLast += fmt.Sprintf(" (the same runs on any machine; time limit %gs as a guard)", budget)
		if cutShort > 0 {
			workModeLast += fmt.Sprintf("; THE TIME LIMIT STOPPED %d SLOT(S) BEFORE THEIR QUOTA: this run explored less than a quick run normally does", cutShort)
			fmt.Fprintf(os.Stderr, "check %s quick: the time limit of %gs stopped %d worker slot(s) before their quota (slow or busy machine); the verdict covers the runs made\n", prop, budget, cutShort)
		}
	}
	writeEvidence(prop, eng, tier, base, agg.runs, len(agg.sigs), agg.steps, agg.ops, agg.simNs, agg.outcomes, agg.faults, agg.probes,
		len(agg.pairs), len(agg.points), agg.samples, wall, buildSec, nworkers, budget, agg.violRuns, nUnknown, lines, ovHash, knownSigs)
	fmt.Printf("check %s %s: runs=%d distinct_schedules=%d steps=%d viol_runs=%d unknown_groups=%d outcomes=%v wall=%.1fs\n",
		prop, tier, agg.runs, len(agg.sigs), agg.steps, agg.violRuns, nUnknown, agg.outcomes, wall)
	if exit == 1 {
		if harnessTrouble != "" {
			fmt.Fprintln(os.Stderr, "check: (also) harness trouble:", harnessTrouble)
		}
		return 1
	}
	if harnessTrouble != "" {
		fmt.Fprintln(os.Stderr, "check: harness trouble:", harnessTrouble)
		return 2
	}
	if agg.runs == 0 {
		fmt.Fprintln(os.Stderr, "check: no runs executed")
		return 2
	}
	return 0
}

func sanitize(s string) string {
	return regexp.MustCompile(`[^A-Za-z0-9_.-]+`).ReplaceAllString(s, "_")
}

func tapeLen(t [][]uint32) int {
	n := 0
	for _, s := range t {
		n += len(s)
	}
	return n
}

func writeJSON(path string, v any) {
	b, _ := json.MarshalIndent(v, "", " ")
	if err := os.WriteFile(path, b, 0o644); err != nil {
		die(2, "%v", err)
	}
}

// replayOnce replays a file in a fresh worker process and reports whether (class, sig) recurred.
// replayOnce replays a file in a fresh worker process and reports whether the violation (class, sig)
// shows again, with the run's hash. A data race is judged by the race detector, whose happens-before
// relation also contains edges that the Go runtime adds at random in race builds (sync.Pool drops one
// Put in four and synchronises unrelated pools that share a hash bucket - fmt alone is enough): the same
// schedule can therefore hide a race in one process and show it in the next. The schedule itself
// replays exactly (same hash); for the class data-race the replay is repeated a few times until the
// detector shows the race again.
func replayOnce(bin, path, prop, class, sig, scratch string) (bool, string, string) {
	attempts := 1
	if class == "data-race" {
		attempts = 6
	}
	var ok bool
	var h, why string
	for i := 0; i < attempts && !ok; i++ {
		ok, h, why = replayAttempt(bin, path, prop, class, sig, scratch)
	}
	return ok, h, why
}

func replayAttempt(bin, path, prop, class, sig, scratch string) (bool, string, string) {
	out := filepath.Join(scratch, fmt.Sprintf("replay-%d.jsonl", time.Now().UnixNano()))
	log, err := worker(bin, spec{Mode: "replay", Replay: path, Out: out}, 0, 5*time.Minute)
	if err != nil {
		return false, "", fmt.Sprintf("replay worker: %v\n%s", err, log)
	}
	runs, _, err := readResults(out)
	if err != nil || len(runs) != 1 {
		return false, "", fmt.Sprintf("replay output unreadable: %v", err)
	}
	for _, v := range runs[0].Violations {
		if v.Property == prop && v.Class == class && (sig == "" || v.Sig == sig) {
			return true, runs[0].Hash, v.Msg
		}
	}
	return false, runs[0].Hash, fmt.Sprintf("replayed run shows %v (outcome %s)", runs[0].Violations, runs[0].Outcome)
}

func doReplay(prop string, eng *engineDef, path string) int {
	if abs, err := filepath.Abs(path); err == nil {
		path = abs
	}
	ovDir, ovHash := overlay()
	bin := buildEngine(eng.name, ovDir, ovHash)
	scratch := scratchDir()
	defer os.RemoveAll(scratch)
	b, err := os.ReadFile(path)
	if err != nil {
		die(2, "%v", err)
	}
	var rf replayFile
	if err := json.Unmarshal(b, &rf); err != nil {
		die(2, "%s: %v", path, err)
	}
	if rf.Race {
		bin = buildEngineX(eng.name, ovDir, ovHash, true)
	}
	var r result
	for attempt := 0; attempt < 6; attempt++ {
		out := filepath.Join(scratch, fmt.Sprintf("replay%d.jsonl", attempt))
		log, err := worker(bin, spec{Mode: "replay", Replay: path, Out: out}, 0, 10*time.Minute)
		if err != nil {
			die(2, "replay worker: %v\n%s", err, log)
		}
		runs, _, err := readResults(out)
		if err != nil || len(runs) != 1 {
			die(2, "replay output unreadable: %v", err)
		}
		r = runs[0]
		shows := false
		for _, v := range r.Violations {
			if v.Property == prop && v.Class == rf.Class {
				shows = true
			}
		}
		if shows || rf.Class != "data-race" {
			break // (only the race detector's verdict can differ between two replays of one schedule: see replayOnce)
		}
	}
	fmt.Printf("replay of %s (engine %s, seed %d): outcome=%s hash=%s recorded_hash=%s\n", path, eng.name, rf.Seed, r.Outcome, r.Hash, rf.Hash)
	for _, l := range r.History {
		fmt.Println("  ", l)
	}
	known := loadKnown()
	status := 0
	for _, v := range r.Violations {
		if v.Property != prop {
			continue
		}
		if kf := matchKnown(known, prop, v.Sig); kf != nil {
			fmt.Printf("KNOWN-FINDING: property=%s %s: %s [sig %s]\n", prop, kf.ID, kf.What, v.Sig)
			continue
		}
		fmt.Printf("VIOLATION property=%s replay=%s\n  class=%s sig=%s: %s\n", prop, path, v.Class, v.Sig, v.Msg)
		status = 1
	}
	if status == 0 && len(r.Violations) == 0 {
		fmt.Println("no violation on replay")
		if rf.Note != "" {
			fmt.Println("note recorded with this file:", rf.Note)
			fmt.Println("recorded report:", rf.Violation)
		}
	}
	return status
}

var raceRunsLast int
var workModeLast string

func writeEvidence(prop string, eng *engineDef, tier string, seed int64, runs, distinct int, steps, ops, simNs int64,
	outcomes, faults, probes map[string]int, pairs, points int, samples []result, wall, buildSec float64, nworkers int, budget float64,
	violRuns, unknownGroups int, lines []string, ovHash string, knownSigs map[string]int) {
	type sample struct {
		Seed     int64          `json:"seed"`
		Config   map[string]any `json:"config"`
		Outcome  string         `json:"outcome"`
		Steps    int            `json:"steps"`
		Switches int            `json:"context_switches"`
		History  []string       `json:"history_prefix"`
	}
	var ss []any
	for _, s := range samples {
		h := s.History
		if len(h) > 40 {
			h = h[:40]
		}
		ss = append(ss, sample{s.Seed, s.Config, s.Outcome, s.Steps, s.Switches, h})
	}
	if len(ss) == 0 {
		ss = append(ss, map[string]any{"note": "no passing non-trivial run was kept as a sample in this invocation"})
	}
	meta := engineMeta[eng.name]
	hours := wall / 3600
	cov := map[string]any{
		"evaluations":         runs,
		"distinct_nontrivial": distinct,
		"rule": "one evaluation = one simulated run (one synctest bubble) of engine '" + eng.name + "' whose configuration, workload, schedule, time advances and faults are all drawn from the choice tape seeded by (VERIF_SEED, worker, index). " +
			"A run is non-trivial if it had >= 2 tasks and >= 1 context switch decided by the scheduler; distinct = number of distinct schedule signatures (hash of the sequence of (task role, yield point) at every context switch) among non-trivial runs, unioned over workers.",
		"samples":                     ss,
		"scheduling_steps":            steps,
		"workload_operations":         ops,
		"simulated_time_s":            float64(simNs) / 1e9,
		"runs_per_hour":               float64(runs) / hours,
		"seeds_per_hour":              float64(runs) / hours,
		"outcomes":                    outcomes,
		"inconclusive":                fmt.Sprintf("%d of %d runs exhausted their step budget before the workload finished (no verdict on them; more than 1%% would fail the check as harness trouble)", outcomes["budget"], runs),
		"faults_fired":                faults,
		"reach_probes":                probes,
		"switch_pair_coverage":        pairs,
		"yield_points_reached":        points,
		"workers":                     nworkers,
		"explore_budget_s_per_worker": budget,
		"work":                        workModeLast,
		"build_s":                     buildSec,
		"overlay_hash":                ovHash,
		"real_components":             meta.real,
		"stub_components":             meta.stub,
		"not_injected":                "crash/restart, disk faults, allocation failure, wall-clock skew: the SDK keeps no durable state and uses monotonic time on every anchored path (DESIGN.md §2.1, §2.4)",
		"violating_runs":              violRuns,
		"unlisted_violation_groups":   unknownGroups,
		"report_lines":                lines,
		"known_finding_signatures":    knownSigs,
	}
	if eng.race {
		cov["race_detector_runs"] = raceRunsLast
		cov["race_detector_rule"] = "runs of the race-detector build of the engine (a quarter of the workers): same simulator and oracles, plus the Go race detector as an oracle over the run, with the simulator's own synchronisation hidden from it so that accesses the schedule merely serialised are reported (DESIGN.md §2.11)"
	}
	ev := map[string]any{
		"property_id": prop,
		"tier":        tier,
		"seed":        seed,
		"level":       "exploration",
		"coverage":    cov,
		"assumptions": meta.assumptions,
		"wall_s":      wall,
		"violations":  unknownGroups,
	}
	dir := filepath.Join(root, "evidence")
	if v := os.Getenv("VERIF_EVIDENCE_DIR"); v != "" {
		dir = v // self-tests that run the check against a deliberately broken tree keep their output apart
	}
	os.MkdirAll(dir, 0o755)
	writeJSON(filepath.Join(dir, prop+".json"), ev)
}

type meta struct {
	real, stub  []string
	assumptions []string
}

var commonAssumptions = []string{
	"sequentially consistent interleavings only: one goroutine of instrumented code runs at a time (token scheduler); weak-memory effects are not modelled",
	"interleavings inside uninstrumented code (stdlib, gRPC, protobuf, client_golang) are not explored",
	"seeded sampling, not enumeration: a clean batch is evidence, not proof",
	"go1.26.8 testing/synctest fake clock and quiescence detection are trusted",
}

var engineMeta = map[string]meta{
	"bsp": {real: []string{"sdk/trace (batch_span_processor.go, provider.go, span.go, tracer.go) instrumented by simgen from the current working tree", "internal/global"},
		stub: []string{"SpanExporter (scripted: ok/error/slow/hang-until-ctx)"}, assumptions: commonAssumptions},
	"spanlin": {real: []string{"sdk/trace (span.go, tracer.go, provider.go, snapshot.go, evictedqueue.go) instrumented by simgen from the current working tree", "Go runtime/trace (really enabled in half of the seed blocks)", "porcupine v1.3.0 linearizability checker"},
		stub: []string{"recording SpanProcessor(s) that deep-copy the snapshot at OnEnd"}, assumptions: append([]string{"the sequential span model covers default span limits only (limits and truncation are C04, not claimed)"}, commonAssumptions...)},
	"metricsim": {real: []string{"sdk/metric (meter, instrument, pipeline, cache, manual_reader, periodic_reader, view, provider) and sdk/metric/internal/aggregate (sum, lastvalue, histogram, limiter, filter) instrumented by simgen from the current working tree", "sdk/metric/internal/x cardinality-limit feature flag (really set through the environment)"},
		stub: []string{"metric.Exporter behind the periodic reader (scripted: ok/error/slow)", "harness gate that keeps measurements out of joint collections (a legal schedule restriction, not part of the SDK)"}, assumptions: commonAssumptions},
	"lifecycle": {real: []string{"sdk/trace, sdk/metric, sdk/log providers with the stock Simple/Batch processors, Manual/Periodic readers, all instrumented by simgen from the current working tree", "stock exporters: tracetest.InMemoryExporter, stdouttrace, stdoutmetric, stdoutlog (writing to a stamped in-memory writer), and nil exporters"},
		stub: []string{"thin counting wrappers around processors and exporters"}, assumptions: commonAssumptions},
	"globalsim": {real: []string{"go.opentelemetry.io/otel (trace.go, metric.go, propagation.go) and internal/global (state, trace, meter, instruments, propagator) instrumented by simgen from the current working tree", "real sdk/trace and sdk/metric as the installed delegates"},
		stub: []string{"recording SpanProcessor; overlay-added VerifReset (same body as the test-only ResetForTest) puts the process globals back between runs"}, assumptions: commonAssumptions},
	"otlpretry": {real: []string{"the six OTLP exporters (otlptracehttp, otlptracegrpc, otlpmetrichttp, otlpmetricgrpc, otlploghttp, otlploggrpc) with their internal/retry, instrumented by simgen from the current working tree", "real net/http client and server, real gRPC client and server, real cenkalti/backoff, running inside the bubble on fake time"},
		stub: []string{"the collector's handlers (scripted status / Retry-After / RetryInfo / latency / partial success)", "the transport: net.Pipe connections handed to an in-bubble listener, with scripted temporary dial errors (HTTP dial seam added by a build-overlay file, gRPC through the public WithDialOption)"},
		assumptions: append([]string{"goroutines of net/http and gRPC are not scheduled by the simulator (they run to quiescence between scheduler steps); one export call is in flight at a time"}, commonAssumptions...)},
	"promsim": {real: []string{"exporters/prometheus (exporter.go, config.go) and sdk/metric instrumented by simgen from the current working tree", "real client_golang Registry.Gather (its worker goroutines are adopted by the scheduler when they enter the exporter's Collect)"},
		stub: []string{"a recovering wrapper around the exporter's Collector so that a panic inside Gather is reported instead of killing the worker process"},
		assumptions: append([]string{"only the schedule-dependent clauses of C18 are decided; name translation and label sanitisation over all names/units/options are a pure function of the instrument description and are not part of this check (a fixed list of two dozen edge-case names keeps the concurrent workload honest)"}, commonAssumptions...)},
	"logbatch": {real: []string{"sdk/log (batch.go, exporter.go, ring.go, logger.go, record.go, provider.go) instrumented by simgen from the current working tree", "internal/global"},
		stub: []string{"log.Exporter (scripted: ok/error/slow/hang-until-ctx)", "a second Processor that mutates the record it is given"}, assumptions: commonAssumptions},
}

func selftestDeterminism(which []string) int {
	ovDir, ovHash := overlay()
	scratch := scratchDir()
	defer os.RemoveAll(scratch)
	status := 0
	nSeeds := int(envFloat("VERIF_DET_SEEDS", 200))
	for _, e := range engines {
		if len(which) > 0 && !contains(which, e.name) {
			continue
		}
		if _, err := os.Stat(filepath.Join(root, "engines", e.name)); err != nil {
			continue
		}
		bin := buildEngine(e.name, ovDir, ovHash)
		type job struct {
			procs       int
			start, step int64
			n           int
			out         string
		}
		var jobs []job
		s0 := seedBase() * 1000
		n := int64(nSeeds)
		// same seeds in every process, but visited in different orders and from different starting
		// points, so that state leaking from one run into the next shows up as a per-seed mismatch
		for i, j := range []job{
			{1, s0, 1, nSeeds, ""}, {4, s0, 1, nSeeds, ""}, {16, s0, 1, nSeeds, ""},
			{1, s0 + n - 1, -1, nSeeds, ""}, {4, s0 + n - 1, -1, nSeeds, ""}, {16, s0 + n/2, 1, nSeeds / 2, ""},
			{16, s0 + n/3, -1, nSeeds / 3, ""}, {4, s0 + 1, 2, nSeeds / 2, ""},
		} {
			j.out = filepath.Join(scratch, fmt.Sprintf("%s-det-%d.jsonl", e.name, i))
			jobs = append(jobs, j)
		}
		// the race-detector build must take exactly the same schedules (same per-seed hashes): two more
		// processes run it
		raceFrom := len(jobs)
		binRace := ""
		if e.race {
			binRace = buildEngineX(e.name, ovDir, ovHash, true)
			for i, j := range []job{{4, s0, 1, nSeeds / 2, ""}, {16, s0 + n - 1, -1, nSeeds / 2, ""}} {
				j.out = filepath.Join(scratch, fmt.Sprintf("%s-det-race-%d.jsonl", e.name, i))
				jobs = append(jobs, j)
			}
		}
		var wg sync.WaitGroup
		errs := make([]error, len(jobs))
		for i, j := range jobs {
			wg.Add(1)
			go func(i int, j job) {
				defer wg.Done()
				b := bin
				if i >= raceFrom {
					b = binRace
				}
				_, errs[i] = worker(b, spec{Mode: "hash", SeedStart: j.start, SeedStep: j.step, MaxRuns: j.n, Out: j.out}, j.procs, 20*time.Minute)
			}(i, j)
		}
		wg.Wait()
		var ref map[string]string
		bad := 0
		for i, j := range jobs {
			_, sum, err := readResults(j.out)
			if errs[i] != nil || err != nil || sum == nil {
				fmt.Printf("determinism %s: worker %d failed: %v %v\n", e.name, i, errs[i], err)
				status = 2
				continue
			}
			if ref == nil {
				ref = sum.PerSeedHash
				continue
			}
			for seed, h := range sum.PerSeedHash {
				if ref[seed] != h {
					bad++
					if bad <= 5 {
						fmt.Printf("determinism %s: seed %s differs: %s vs %s (GOMAXPROCS %d)\n", e.name, seed, ref[seed], h, j.procs)
					}
				}
			}
		}
		fmt.Printf("determinism %s: %d seeds x %d processes (GOMAXPROCS 1,4,16; forward, reverse, offset and strided seed orders; %d of them race-detector builds): %d mismatches\n", e.name, nSeeds, len(jobs), len(jobs)-raceFrom, bad)
		if bad > 0 {
			status = 2
		}
	}
	return status
}
