// simgen instruments packages of /repo for the deterministic simulator. It type-checks the listed
// packages with go/packages, rewrites every non-test file (see DESIGN.md §2.2) and writes the result,
// together with an overlay.json for `go build -overlay`, to an output directory. Nothing under /repo is
// written.
package main

import (
	"bytes"
	"encoding/json"
	"flag"
	"fmt"
	"go/ast"
	"go/printer"
	"go/token"
	"go/types"
	"os"
	"path/filepath"
	"sort"
	"strings"

	"golang.org/x/tools/go/ast/astutil"
	"golang.org/x/tools/go/packages"
)

const rtName = "__simrt"
const rtPath = "verif/simrt"

type point struct {
	ID   uint32 `json:"id"`
	Pos  string `json:"pos"`
	Kind string `json:"kind"`
}

type gen struct {
	fset   *token.FileSet
	nextID uint32
	points []point
	warn   []string
	census map[string]int
}

func main() {
	out := flag.String("out", "", "output directory")
	dir := flag.String("dir", "/verif", "directory of the harness module (load context)")
	addDir := flag.String("add", "", "directory with overlay-added files: <add>/<import path under go.opentelemetry.io/otel>/<name>.go.txt")
	repo := flag.String("repo", "/repo", "repository root")
	flag.Parse()
	if *out == "" || flag.NArg() == 0 {
		fmt.Fprintln(os.Stderr, "usage: simgen -out DIR pkg...")
		os.Exit(2)
	}
	if err := os.MkdirAll(*out, 0o755); err != nil {
		fatal(err)
	}
	cfg := &packages.Config{
		Mode: packages.NeedName | packages.NeedFiles | packages.NeedCompiledGoFiles | packages.NeedSyntax |
			packages.NeedTypes | packages.NeedTypesInfo | packages.NeedImports,
		Dir:   *dir,
		Env:   os.Environ(),
		Tests: false,
	}
	pkgs, err := packages.Load(cfg, flag.Args()...)
	if err != nil {
		fatal(err)
	}
	g := &gen{nextID: 1, census: map[string]int{}}
	overlay := map[string]string{}
	sort.Slice(pkgs, func(i, j int) bool { return pkgs[i].PkgPath < pkgs[j].PkgPath })
	for _, p := range pkgs {
		if len(p.Errors) > 0 {
			for _, e := range p.Errors {
				fmt.Fprintln(os.Stderr, "load error:", e)
			}
			os.Exit(2)
		}
		g.fset = p.Fset
		for i, f := range p.Syntax {
			name := p.CompiledGoFiles[i]
			if !strings.HasPrefix(name, *repo+"/") {
				fatal(fmt.Errorf("file %s of %s is outside %s", name, p.PkgPath, *repo))
			}
			if hasDirective(f) {
				g.warn = append(g.warn, "left uninstrumented (go:embed/linkname/cgo): "+name)
				continue
			}
			r := &rewriter{g: g, pkg: p, info: p.TypesInfo, file: f, fname: strings.TrimPrefix(name, *repo+"/"),
				skip: map[ast.Node]bool{}, syncStmt: map[ast.Stmt]bool{}, recvCalls: map[*ast.CallExpr]bool{}, labelInner: map[*ast.BlockStmt]bool{}}
			if !r.rewrite() {
				continue
			}
			var buf bytes.Buffer
			pc := printer.Config{Mode: printer.UseSpaces | printer.TabIndent, Tabwidth: 8}
			if err := pc.Fprint(&buf, p.Fset, f); err != nil {
				fatal(fmt.Errorf("print %s: %v", name, err))
			}
			dst := filepath.Join(*out, strings.ReplaceAll(strings.TrimPrefix(name, *repo+"/"), "/", "__")+".txt")
			if err := os.WriteFile(dst, buf.Bytes(), 0o644); err != nil {
				fatal(err)
			}
			overlay[name] = dst
		}
	}
	if *addDir != "" {
		filepath.Walk(*addDir, func(path string, fi os.FileInfo, err error) error {
			if err != nil || fi.IsDir() || !strings.HasSuffix(path, ".go.txt") {
				return nil
			}
			rel, _ := filepath.Rel(*addDir, path)
			overlay[filepath.Join(*repo, strings.TrimSuffix(rel, ".txt"))] = path
			return nil
		})
	}
	ob, _ := json.MarshalIndent(map[string]any{"Replace": overlay}, "", " ")
	if err := os.WriteFile(filepath.Join(*out, "overlay.json"), ob, 0o644); err != nil {
		fatal(err)
	}
	pb, _ := json.Marshal(map[string]any{"points": g.points, "warnings": g.warn, "census": g.census})
	if err := os.WriteFile(filepath.Join(*out, "points.json"), pb, 0o644); err != nil {
		fatal(err)
	}
	for _, w := range g.warn {
		fmt.Fprintln(os.Stderr, "simgen:", w)
	}
	fmt.Printf("simgen: %d packages, %d files, %d points\n", len(pkgs), len(overlay), len(g.points))
}

func fatal(err error) {
	fmt.Fprintln(os.Stderr, "simgen:", err)
	os.Exit(2)
}

func hasDirective(f *ast.File) bool {
	for _, cg := range f.Comments {
		for _, c := range cg.List {
			if strings.HasPrefix(c.Text, "//go:embed") || strings.HasPrefix(c.Text, "//go:linkname") {
				return true
			}
		}
	}
	for _, im := range f.Imports {
		if im.Path.Value == `"C"` {
			return true
		}
	}
	return false
}

type rewriter struct {
	g          *gen
	pkg        *packages.Package
	info       *types.Info
	file       *ast.File
	fname      string
	skip       map[ast.Node]bool
	syncStmt   map[ast.Stmt]bool
	recvCalls  map[*ast.CallExpr]bool
	labelInner map[*ast.BlockStmt]bool
	tmp        int
	used       bool
}

func (r *rewriter) id(n ast.Node, kind string) ast.Expr {
	id := r.g.nextID
	r.g.nextID++
	pos := r.g.fset.Position(n.Pos())
	r.g.points = append(r.g.points, point{ID: id, Pos: fmt.Sprintf("%s:%d", r.fname, pos.Line), Kind: kind})
	r.g.census[kind]++
	r.used = true
	return &ast.BasicLit{Kind: token.INT, Value: fmt.Sprint(id)}
}

func ident(s string) *ast.Ident { return ast.NewIdent(s) }

func rt(name string) ast.Expr { return &ast.SelectorExpr{X: ident(rtName), Sel: ident(name)} }

func call(fun ast.Expr, args ...ast.Expr) *ast.CallExpr { return &ast.CallExpr{Fun: fun, Args: args} }

func exprStmt(e ast.Expr) ast.Stmt { return &ast.ExprStmt{X: e} }

func define(lhs []ast.Expr, rhs ...ast.Expr) ast.Stmt {
	return &ast.AssignStmt{Lhs: lhs, Tok: token.DEFINE, Rhs: rhs}
}

func assign(lhs []ast.Expr, rhs ...ast.Expr) ast.Stmt {
	return &ast.AssignStmt{Lhs: lhs, Tok: token.ASSIGN, Rhs: rhs}
}

func intLit(i int) ast.Expr { return &ast.BasicLit{Kind: token.INT, Value: fmt.Sprint(i)} }

func (r *rewriter) tmpName(base string) string {
	r.tmp++
	return fmt.Sprintf("__%s%d", base, r.tmp)
}

func (r *rewriter) rewrite() bool {
	astutil.Apply(r.file, r.pre, r.post)
	if !r.used {
		return false
	}
	r.file.Comments = nil
	// strip doc comments that the printer would otherwise still emit from node fields
	ast.Inspect(r.file, func(n ast.Node) bool {
		switch x := n.(type) {
		case *ast.GenDecl:
			x.Doc = nil
		case *ast.FuncDecl:
			x.Doc = nil
		case *ast.Field:
			x.Doc, x.Comment = nil, nil
		case *ast.ValueSpec:
			x.Doc, x.Comment = nil, nil
		case *ast.TypeSpec:
			x.Doc, x.Comment = nil, nil
		case *ast.ImportSpec:
			x.Doc, x.Comment = nil, nil
		}
		return true
	})
	r.file.Doc = nil
	// rewrites can remove the last use of "sync" (sync.OnceFunc) or "time" (time.Sleep): keep them used
	for _, im := range r.file.Imports {
		if im.Name != nil {
			continue
		}
		var typ string
		switch im.Path.Value {
		case `"sync"`:
			typ = "Mutex"
		case `"time"`:
			typ = "Duration"
		default:
			continue
		}
		pkg := strings.Trim(im.Path.Value, `"`)
		r.file.Decls = append(r.file.Decls, &ast.GenDecl{Tok: token.VAR, Specs: []ast.Spec{&ast.ValueSpec{
			Names: []*ast.Ident{ident("_")}, Type: &ast.SelectorExpr{X: ident(pkg), Sel: ident(typ)}}}})
	}
	// add the runtime import
	spec := &ast.ImportSpec{Name: ident(rtName), Path: &ast.BasicLit{Kind: token.STRING, Value: fmt.Sprintf("%q", rtPath)}}
	r.file.Decls = append([]ast.Decl{&ast.GenDecl{Tok: token.IMPORT, Specs: []ast.Spec{spec}}}, r.file.Decls...)
	return true
}

func unparen(e ast.Expr) ast.Expr {
	for {
		p, ok := e.(*ast.ParenExpr)
		if !ok {
			return e
		}
		e = p.X
	}
}

func isRecv(e ast.Expr) *ast.UnaryExpr {
	if u, ok := unparen(e).(*ast.UnaryExpr); ok && u.Op == token.ARROW {
		return u
	}
	return nil
}

func (r *rewriter) pre(c *astutil.Cursor) bool {
	switch n := c.Node().(type) {
	case *ast.CompositeLit:
		// sync.Pool{New: func() ...}: whether New runs depends on GC and on earlier runs in the same
		// process; keep it free of scheduling points so that it cannot perturb replay.
		if pkg, name := namedOf(r.info.TypeOf(n)); pkg == "sync" && name == "Pool" {
			return false
		}
	case *ast.SelectStmt:
		for _, cl := range n.Body.List {
			cc := cl.(*ast.CommClause)
			switch s := cc.Comm.(type) {
			case *ast.SendStmt:
				r.skip[s] = true
			case *ast.ExprStmt:
				if u := isRecv(s.X); u != nil {
					r.skip[u] = true
				}
			case *ast.AssignStmt:
				if len(s.Rhs) == 1 {
					if u := isRecv(s.Rhs[0]); u != nil {
						r.skip[u] = true
					}
				}
			}
		}
	}
	if s, ok := c.Node().(ast.Stmt); ok {
		if r.needsSync(s) {
			r.syncStmt[s] = true
		}
	}
	return true
}

// headerExprs returns the parts of a statement that are evaluated at the statement itself (not the
// nested blocks).
func headerNodes(s ast.Stmt) []ast.Node {
	switch x := s.(type) {
	case *ast.IfStmt:
		return []ast.Node{x.Init, x.Cond}
	case *ast.ForStmt:
		return []ast.Node{x.Init, x.Cond, x.Post}
	case *ast.SwitchStmt:
		return []ast.Node{x.Init, x.Tag}
	case *ast.TypeSwitchStmt:
		return []ast.Node{x.Init, x.Assign}
	case *ast.RangeStmt:
		return []ast.Node{x.X}
	case *ast.BlockStmt, *ast.SelectStmt, *ast.LabeledStmt, *ast.CaseClause, *ast.CommClause, *ast.GoStmt, *ast.SendStmt, *ast.EmptyStmt, *ast.BranchStmt:
		return nil
	case *ast.DeferStmt:
		return nil
	default:
		return []ast.Node{s}
	}
}

func (r *rewriter) needsSync(s ast.Stmt) bool {
	found := false
	for _, h := range headerNodes(s) {
		if h == nil || (func() bool { v, ok := h.(ast.Expr); return ok && v == nil })() || (func() bool { v, ok := h.(ast.Stmt); return ok && v == nil })() {
			continue
		}
		ast.Inspect(h, func(n ast.Node) bool {
			if found {
				return false
			}
			switch x := n.(type) {
			case *ast.FuncLit:
				return false
			case *ast.CallExpr:
				if r.isSyncCall(x) {
					found = true
					return false
				}
			}
			return true
		})
	}
	return found
}

func namedOf(t types.Type) (pkg, name string) {
	if p, ok := t.(*types.Pointer); ok {
		t = p.Elem()
	}
	t = types.Unalias(t)
	if n, ok := t.(*types.Named); ok && n.Obj().Pkg() != nil {
		return n.Obj().Pkg().Path(), n.Obj().Name()
	}
	return "", ""
}

// calleeFunc resolves the statically known function or method of a call.
func (r *rewriter) calleeFunc(c *ast.CallExpr) *types.Func {
	var id *ast.Ident
	switch f := unparen(c.Fun).(type) {
	case *ast.Ident:
		id = f
	case *ast.SelectorExpr:
		id = f.Sel
	case *ast.IndexExpr:
		switch g := unparen(f.X).(type) {
		case *ast.Ident:
			id = g
		case *ast.SelectorExpr:
			id = g.Sel
		}
	}
	if id == nil {
		return nil
	}
	fn, _ := r.info.Uses[id].(*types.Func)
	return fn
}

func (r *rewriter) isSyncCall(c *ast.CallExpr) bool {
	if fn := r.calleeFunc(c); fn != nil {
		sig := fn.Type().(*types.Signature)
		if sig.Recv() == nil {
			if fn.Pkg() != nil && fn.Pkg().Path() == "sync/atomic" {
				return true
			}
			return false
		}
		pkg, name := namedOf(sig.Recv().Type())
		switch {
		case pkg == "sync/atomic":
			return true
		case pkg == "time" && (name == "Timer" || name == "Ticker") && (fn.Name() == "Reset" || fn.Name() == "Stop"):
			return true
		}
		return false
	}
	// call of a func-typed value: context.CancelFunc
	if tv, ok := r.info.Types[c.Fun]; ok && tv.Type != nil {
		if pkg, name := namedOf(tv.Type); pkg == "context" && (name == "CancelFunc" || name == "CancelCauseFunc") {
			return true
		}
	}
	return false
}

// recvPtr builds a pointer expression to the sync object on which a (possibly promoted) method is
// invoked.
func (r *rewriter) recvPtr(sel *ast.SelectorExpr) ast.Expr {
	selection := r.info.Selections[sel]
	if selection == nil || selection.Kind() != types.MethodVal {
		return nil
	}
	x := sel.X
	t := r.info.TypeOf(sel.X)
	if t == nil {
		return nil
	}
	idx := selection.Index()
	for _, i := range idx[:len(idx)-1] {
		if p, ok := t.Underlying().(*types.Pointer); ok {
			t = p.Elem()
		}
		st, ok := t.Underlying().(*types.Struct)
		if !ok {
			return nil
		}
		f := st.Field(i)
		x = &ast.SelectorExpr{X: x, Sel: ident(f.Name())}
		t = f.Type()
	}
	if _, ok := t.Underlying().(*types.Pointer); ok {
		return x
	}
	if _, ok := t.(*types.TypeParam); ok {
		return nil
	}
	return &ast.UnaryExpr{Op: token.AND, X: x}
}

func (r *rewriter) post(c *astutil.Cursor) bool {
	switch n := c.Node().(type) {
	case *ast.CallExpr:
		r.postCall(c, n)
	case *ast.UnaryExpr:
		if n.Op == token.ARROW && !r.skip[n] {
			nc := call(rt("Recv"), n.X, r.id(n, "recv"))
			r.recvCalls[nc] = true
			c.Replace(nc)
		}
	case *ast.AssignStmt:
		if len(n.Lhs) == 2 && len(n.Rhs) == 1 {
			if ce, ok := unparen(n.Rhs[0]).(*ast.CallExpr); ok && r.recvCalls[ce] {
				ce.Fun = rt("Recv2")
			}
		}
	case *ast.ValueSpec:
		if len(n.Names) == 2 && len(n.Values) == 1 {
			if ce, ok := unparen(n.Values[0]).(*ast.CallExpr); ok && r.recvCalls[ce] {
				ce.Fun = rt("Recv2")
			}
		}
	case *ast.SendStmt:
		if !r.skip[n] {
			c.Replace(exprStmt(call(rt("Send"), n.Chan, n.Value, r.id(n, "send"))))
		}
	case *ast.GoStmt:
		c.Replace(r.rewriteGo(n))
	case *ast.SelectStmt:
		if len(n.Body.List) > 0 {
			if b := r.rewriteSelect(n); b != nil {
				c.Replace(b)
			}
		}
	case *ast.RangeStmt:
		if b := r.rewriteRange(n); b != nil {
			c.Replace(b)
		}
	case *ast.LabeledStmt:
		if b, ok := n.Stmt.(*ast.BlockStmt); ok && r.labelInner[b] {
			last := len(b.List) - 1
			b.List[last] = &ast.LabeledStmt{Label: n.Label, Stmt: b.List[last]}
			c.Replace(b)
		}
	case *ast.BlockStmt:
		n.List = r.instrumentList(n.List)
	case *ast.CaseClause:
		n.Body = r.instrumentList(n.Body)
	case *ast.CommClause:
		n.Body = r.instrumentList(n.Body)
	}
	return true
}

func (r *rewriter) instrumentList(list []ast.Stmt) []ast.Stmt {
	if len(list) == 0 {
		return list
	}
	switch list[0].(type) {
	case *ast.CaseClause, *ast.CommClause:
		return list // body of a switch/select: clauses, not statements
	}
	out := make([]ast.Stmt, 0, 2*len(list))
	for _, s := range list {
		if _, ok := s.(*ast.EmptyStmt); ok {
			out = append(out, s)
			continue
		}
		if s.Pos() == token.NoPos {
			// synthesized by an earlier rewrite (already carries its own scheduling point)
			out = append(out, s)
			continue
		}
		if r.syncStmt[s] {
			out = append(out, exprStmt(call(rt("Sync"), r.id(s, "sync"))))
		} else {
			out = append(out, exprStmt(call(rt("P"), r.id(s, "plain"))))
		}
		if split := r.splitRMW(s); split != nil {
			out = append(out, split)
			continue
		}
		out = append(out, s)
	}
	return out
}

// pureLHS reports whether evaluating e twice is harmless (identifiers, field selections, derefs and
// indexing by identifiers/literals only) and whether it denotes memory that other goroutines can reach
// (anything but a plain local variable).
func (r *rewriter) pureLHS(e ast.Expr) (pure, shared bool) {
	switch x := e.(type) {
	case *ast.Ident:
		if v, ok := r.info.Uses[x].(*types.Var); ok {
			return true, v.Parent() == v.Pkg().Scope()
		}
		return false, false
	case *ast.ParenExpr:
		return r.pureLHS(x.X)
	case *ast.SelectorExpr:
		if sel := r.info.Selections[x]; sel != nil && sel.Kind() == types.FieldVal {
			p, _ := r.pureLHS(x.X)
			return p, true
		}
		if _, ok := r.info.Uses[x.Sel].(*types.Var); ok { // pkg.Var
			return true, true
		}
		return false, false
	case *ast.StarExpr:
		p, _ := r.pureLHS(x.X)
		return p, true
	case *ast.IndexExpr:
		p, sh := r.pureLHS(x.X)
		switch ix := x.Index.(type) {
		case *ast.BasicLit:
		case *ast.Ident:
			_ = ix
		default:
			if pi, _ := r.pureLHS(x.Index); !pi {
				return false, false
			}
		}
		if t := r.info.TypeOf(x.X); t != nil {
			switch t.Underlying().(type) {
			case *types.Map, *types.Slice, *types.Pointer:
				sh = true // element memory is reachable through the map/slice header
			}
		}
		return p, sh
	}
	return false, false
}

// splitRMW rewrites an unsynchronised-looking read-modify-write of shared memory (x++, x op= e,
// x = append(x, ...)) into read; plain point; write. Under a lock the split is unobservable; if a
// change to /repo removes or narrows the lock, the lost update becomes reachable by plain-point
// preemption (the token scheduler otherwise executes a whole statement atomically).
func (r *rewriter) splitRMW(s ast.Stmt) ast.Stmt {
	tmp := func() string { return r.tmpName("rmw") }
	switch x := s.(type) {
	case *ast.IncDecStmt:
		if pure, shared := r.pureLHS(x.X); !pure || !shared {
			return nil
		}
		t := tmp()
		op := token.ADD
		if x.Tok == token.DEC {
			op = token.SUB
		}
		return &ast.BlockStmt{List: []ast.Stmt{
			define([]ast.Expr{ident(t)}, x.X),
			exprStmt(call(rt("P"), r.id(s, "rmw"))),
			assign([]ast.Expr{x.X}, &ast.BinaryExpr{X: ident(t), Op: op, Y: intLit(1)}),
		}}
	case *ast.AssignStmt:
		if len(x.Lhs) != 1 || len(x.Rhs) != 1 {
			return nil
		}
		if pure, shared := r.pureLHS(x.Lhs[0]); !pure || !shared {
			return nil
		}
		var binop token.Token
		switch x.Tok {
		case token.ADD_ASSIGN:
			binop = token.ADD
		case token.SUB_ASSIGN:
			binop = token.SUB
		case token.MUL_ASSIGN:
			binop = token.MUL
		case token.OR_ASSIGN:
			binop = token.OR
		case token.AND_ASSIGN:
			binop = token.AND
		case token.ASSIGN:
			// x = append(x, ...)
			ce, ok := x.Rhs[0].(*ast.CallExpr)
			if !ok || len(ce.Args) == 0 {
				return nil
			}
			id, ok := ce.Fun.(*ast.Ident)
			if !ok || id.Name != "append" {
				return nil
			}
			if _, isBuiltin := r.info.Uses[id].(*types.Builtin); !isBuiltin {
				return nil
			}
			if types.ExprString(ce.Args[0]) != types.ExprString(x.Lhs[0]) {
				return nil
			}
			t := tmp()
			nc := &ast.CallExpr{Fun: ce.Fun, Args: append([]ast.Expr{ident(t)}, ce.Args[1:]...), Ellipsis: ce.Ellipsis}
			return &ast.BlockStmt{List: []ast.Stmt{
				define([]ast.Expr{ident(t)}, x.Lhs[0]),
				exprStmt(call(rt("P"), r.id(s, "rmw"))),
				assign([]ast.Expr{x.Lhs[0]}, nc),
			}}
		default:
			return nil
		}
		if tv, ok := r.info.Types[x.Lhs[0]]; ok {
			if b, isBasic := tv.Type.Underlying().(*types.Basic); !isBasic || b.Info()&(types.IsNumeric|types.IsString) == 0 {
				if _, isTP := tv.Type.(*types.TypeParam); !isTP {
					return nil
				}
			}
		}
		t := tmp()
		return &ast.BlockStmt{List: []ast.Stmt{
			define([]ast.Expr{ident(t)}, x.Lhs[0]),
			exprStmt(call(rt("P"), r.id(s, "rmw"))),
			assign([]ast.Expr{x.Lhs[0]}, &ast.BinaryExpr{X: ident(t), Op: binop, Y: &ast.ParenExpr{X: x.Rhs[0]}}),
		}}
	}
	return nil
}

func (r *rewriter) postCall(c *astutil.Cursor, n *ast.CallExpr) {
	// builtin close
	if id, ok := unparen(n.Fun).(*ast.Ident); ok && id.Name == "close" && len(n.Args) == 1 {
		if _, isBuiltin := r.info.Uses[id].(*types.Builtin); isBuiltin {
			c.Replace(call(rt("Close"), n.Args[0], r.id(n, "close")))
			return
		}
	}
	fn := r.calleeFunc(n)
	if fn == nil || fn.Pkg() == nil {
		return
	}
	sig := fn.Type().(*types.Signature)
	if sig.Recv() == nil {
		switch fn.Pkg().Path() + "." + fn.Name() {
		case "sync.OnceFunc":
			r.used = true
			n.Fun = rt("OnceFunc")
		case "sync.OnceValue":
			r.used = true
			n.Fun = rt("OnceValue")
		case "time.Sleep":
			c.Replace(call(rt("Sleep"), n.Args[0], r.id(n, "sleep")))
		}
		return
	}
	pkg, name := namedOf(sig.Recv().Type())
	if pkg != "sync" {
		return
	}
	sel, ok := unparen(n.Fun).(*ast.SelectorExpr)
	if !ok {
		return
	}
	var repl string
	switch name + "." + fn.Name() {
	case "Mutex.Lock":
		repl = "MuLock"
	case "Mutex.Unlock":
		repl = "MuUnlock"
	case "Mutex.TryLock":
		repl = "MuTryLock"
	case "RWMutex.Lock":
		repl = "RWLock"
	case "RWMutex.Unlock":
		repl = "RWUnlock"
	case "RWMutex.RLock":
		repl = "RWRLock"
	case "RWMutex.RUnlock":
		repl = "RWRUnlock"
	case "Once.Do":
		repl = "OnceDo"
	case "WaitGroup.Wait":
		repl = "WgWait"
	case "WaitGroup.Add":
		repl = "WgAdd"
	case "WaitGroup.Done":
		repl = "WgDone"
	case "Pool.Get":
		repl = "PoolGet"
	case "Pool.Put":
		repl = "PoolPut"
	default:
		if name == "Mutex" || name == "RWMutex" || name == "Once" || name == "WaitGroup" || name == "Cond" || name == "Map" {
			r.g.warn = append(r.g.warn, fmt.Sprintf("%s: unhandled sync method %s.%s", r.g.fset.Position(n.Pos()), name, fn.Name()))
		}
		return
	}
	ptr := r.recvPtr(sel)
	if ptr == nil {
		r.g.warn = append(r.g.warn, fmt.Sprintf("%s: cannot address receiver of %s.%s", r.g.fset.Position(n.Pos()), name, fn.Name()))
		return
	}
	args := append([]ast.Expr{ptr}, n.Args...)
	if name == "Pool" {
		r.used = true
		r.g.census["pool."+fn.Name()]++
		c.Replace(call(rt(repl), args...))
		return
	}
	args = append(args, r.id(n, strings.ToLower(name)+"."+fn.Name()))
	c.Replace(call(rt(repl), args...))
}

func (r *rewriter) rewriteGo(n *ast.GoStmt) ast.Stmt {
	cl := n.Call
	var pre []ast.Stmt
	var args []ast.Expr
	for _, a := range cl.Args {
		if tv, ok := r.info.Types[a]; ok && tv.Value != nil {
			args = append(args, a) // constant
			continue
		}
		t := r.tmpName("a")
		pre = append(pre, define([]ast.Expr{ident(t)}, a))
		args = append(args, ident(t))
	}
	fun := cl.Fun
	if lit, ok := unparen(fun).(*ast.FuncLit); ok && len(cl.Args) == 0 {
		return exprStmt(call(rt("Go"), r.id(n, "go"), lit))
	}
	switch f := unparen(fun).(type) {
	case *ast.FuncLit:
	case *ast.Ident:
		if _, isFunc := r.info.Uses[f].(*types.Func); !isFunc {
			t := r.tmpName("f")
			pre = append([]ast.Stmt{define([]ast.Expr{ident(t)}, fun)}, pre...)
			fun = ident(t)
		}
	case *ast.SelectorExpr:
		if s := r.info.Selections[f]; s != nil { // method value or field: bind now
			t := r.tmpName("f")
			pre = append([]ast.Stmt{define([]ast.Expr{ident(t)}, fun)}, pre...)
			fun = ident(t)
		}
	default:
		t := r.tmpName("f")
		pre = append([]ast.Stmt{define([]ast.Expr{ident(t)}, fun)}, pre...)
		fun = ident(t)
	}
	inner := &ast.CallExpr{Fun: fun, Args: args, Ellipsis: cl.Ellipsis}
	if cl.Ellipsis != token.NoPos {
		inner.Ellipsis = 1
	}
	lit := &ast.FuncLit{Type: &ast.FuncType{Params: &ast.FieldList{}}, Body: &ast.BlockStmt{List: []ast.Stmt{exprStmt(inner)}}}
	pre = append(pre, exprStmt(call(rt("Go"), r.id(n, "go"), lit)))
	return &ast.BlockStmt{List: pre}
}

func (r *rewriter) rewriteSelect(n *ast.SelectStmt) *ast.BlockStmt {
	type cas struct {
		cc     *ast.CommClause
		send   *ast.SendStmt
		recv   *ast.UnaryExpr
		lhs    []ast.Expr
		tok    token.Token
		c, x   string
		v, ok  string
		isDflt bool
	}
	r.tmp++
	sfx := fmt.Sprint(r.tmp)
	var cases []*cas
	var dflt *cas
	for _, cl := range n.Body.List {
		cc := cl.(*ast.CommClause)
		k := &cas{cc: cc}
		switch s := cc.Comm.(type) {
		case nil:
			k.isDflt = true
			dflt = k
			continue
		case *ast.SendStmt:
			k.send = s
		case *ast.ExprStmt:
			k.recv = isRecv(s.X)
		case *ast.AssignStmt:
			k.recv = isRecv(s.Rhs[0])
			k.lhs = s.Lhs
			k.tok = s.Tok
		}
		if k.send == nil && k.recv == nil {
			r.g.warn = append(r.g.warn, fmt.Sprintf("%s: unsupported select case, select left as is", r.g.fset.Position(n.Pos())))
			return nil
		}
		i := len(cases)
		k.c = fmt.Sprintf("__c%s_%d", sfx, i)
		k.x = fmt.Sprintf("__x%s_%d", sfx, i)
		k.v = fmt.Sprintf("__v%s_%d", sfx, i)
		k.ok = fmt.Sprintf("__ok%s_%d", sfx, i)
		cases = append(cases, k)
	}
	selv := "__sel" + sfx
	iv := "__i" + sfx
	pid := r.id(n, "select")
	var out []ast.Stmt
	// evaluate channel operands and send values once, in source order
	for _, k := range cases {
		if k.send != nil {
			out = append(out, define([]ast.Expr{ident(k.c)}, k.send.Chan))
			out = append(out, define([]ast.Expr{ident(k.x)}, call(rt("ElemOf"), ident(k.c), k.send.Value)))
		} else {
			out = append(out, define([]ast.Expr{ident(k.c)}, k.recv.X))
			out = append(out, define([]ast.Expr{ident(k.v), ident(k.ok)}, call(rt("ZeroOf"), ident(k.c)), ident("false")))
			out = append(out, assign([]ast.Expr{ident("_"), ident("_")}, ident(k.v), ident(k.ok)))
		}
	}
	out = append(out, define([]ast.Expr{ident(selv)}, &ast.UnaryExpr{Op: token.SUB, X: intLit(1)}))
	// poll phase
	var pollCases []ast.Stmt
	for i, k := range cases {
		var body []ast.Stmt
		setSel := assign([]ast.Expr{ident(selv)}, intLit(i))
		if k.send != nil {
			body = []ast.Stmt{&ast.IfStmt{Cond: call(rt("TrySend"), ident(k.c), ident(k.x)), Body: &ast.BlockStmt{List: []ast.Stmt{setSel}}}}
		} else {
			g := fmt.Sprintf("__g%s_%d", sfx, i)
			body = []ast.Stmt{
				&ast.DeclStmt{Decl: &ast.GenDecl{Tok: token.VAR, Specs: []ast.Spec{&ast.ValueSpec{Names: []*ast.Ident{ident(g)}, Type: ident("bool")}}}},
				assign([]ast.Expr{ident(k.v), ident(k.ok), ident(g)}, call(rt("TryRecv"), ident(k.c))),
				&ast.IfStmt{Cond: ident(g), Body: &ast.BlockStmt{List: []ast.Stmt{setSel}}},
			}
		}
		pollCases = append(pollCases, &ast.CaseClause{List: []ast.Expr{intLit(i)}, Body: body})
	}
	loop := &ast.RangeStmt{Key: ident("_"), Value: ident(iv), Tok: token.DEFINE,
		X: call(rt("SelEnter"), intLit(len(cases)), pid),
		Body: &ast.BlockStmt{List: []ast.Stmt{
			&ast.SwitchStmt{Tag: ident(iv), Body: &ast.BlockStmt{List: pollCases}},
			&ast.IfStmt{Cond: &ast.BinaryExpr{X: ident(selv), Op: token.GEQ, Y: intLit(0)}, Body: &ast.BlockStmt{List: []ast.Stmt{&ast.BranchStmt{Tok: token.BREAK}}}},
		}}}
	out = append(out, loop)
	// block phase / default
	var miss []ast.Stmt
	if dflt != nil {
		miss = []ast.Stmt{assign([]ast.Expr{ident(selv)}, intLit(len(cases)))}
	} else {
		var comm []ast.Stmt
		for i, k := range cases {
			setSel := assign([]ast.Expr{ident(selv)}, intLit(i))
			var cs ast.Stmt
			if k.send != nil {
				cs = &ast.SendStmt{Chan: ident(k.c), Value: ident(k.x)}
			} else {
				cs = assign([]ast.Expr{ident(k.v), ident(k.ok)}, &ast.UnaryExpr{Op: token.ARROW, X: ident(k.c)})
			}
			comm = append(comm, &ast.CommClause{Comm: cs, Body: []ast.Stmt{setSel}})
		}
		miss = []ast.Stmt{&ast.SelectStmt{Body: &ast.BlockStmt{List: comm}}, exprStmt(call(rt("SelWoke"), pid))}
	}
	out = append(out, &ast.IfStmt{Cond: &ast.BinaryExpr{X: ident(selv), Op: token.LSS, Y: intLit(0)}, Body: &ast.BlockStmt{List: miss}})
	// dispatch
	var disp []ast.Stmt
	for i, k := range cases {
		var body []ast.Stmt
		if len(k.lhs) > 0 {
			src := []ast.Expr{ident(k.v), ident(k.ok)}[:len(k.lhs)]
			allBlank := true
			for _, l := range k.lhs {
				if id, ok := l.(*ast.Ident); !ok || id.Name != "_" {
					allBlank = false
				}
			}
			if !allBlank {
				body = append(body, &ast.AssignStmt{Lhs: k.lhs, Tok: k.tok, Rhs: src})
				if k.tok == token.DEFINE {
					var us, blanks []ast.Expr
					for _, l := range k.lhs {
						if id, ok := l.(*ast.Ident); ok && id.Name != "_" {
							us = append(us, ident(id.Name))
							blanks = append(blanks, ident("_"))
						}
					}
					body = append(body, assign(blanks, us...))
				}
			}
		}
		body = append(body, k.cc.Body...)
		disp = append(disp, &ast.CaseClause{List: []ast.Expr{intLit(i)}, Body: body})
	}
	if dflt != nil {
		disp = append(disp, &ast.CaseClause{List: []ast.Expr{intLit(len(cases))}, Body: dflt.cc.Body})
	}
	// keeps the rewritten statement "terminating" whenever the original select was
	disp = append(disp, &ast.CaseClause{Body: []ast.Stmt{exprStmt(call(ident("panic"), &ast.BasicLit{Kind: token.STRING, Value: `"simgen: unreachable select index"`}))}})
	out = append(out, &ast.SwitchStmt{Tag: ident(selv), Body: &ast.BlockStmt{List: disp}})
	b := &ast.BlockStmt{List: out}
	r.labelInner[b] = true
	return b
}

func (r *rewriter) rewriteRange(n *ast.RangeStmt) *ast.BlockStmt {
	t := r.info.TypeOf(n.X)
	if t == nil {
		return nil
	}
	switch u := t.Underlying().(type) {
	case *types.Chan:
		rc := r.tmpName("rc")
		ok := r.tmpName("ok")
		var first ast.Stmt
		recv := call(rt("Recv2"), ident(rc), r.id(n, "rangechan"))
		switch {
		case n.Key == nil:
			first = define([]ast.Expr{ident("_"), ident(ok)}, recv)
		case n.Tok == token.DEFINE:
			first = define([]ast.Expr{n.Key, ident(ok)}, recv)
		default:
			return nil
		}
		_ = u
		body := []ast.Stmt{first,
			&ast.IfStmt{Cond: &ast.UnaryExpr{Op: token.NOT, X: ident(ok)}, Body: &ast.BlockStmt{List: []ast.Stmt{&ast.BranchStmt{Tok: token.BREAK}}}}}
		if id, isID := n.Key.(*ast.Ident); n.Key != nil && isID && id.Name != "_" {
			body = append(body, assign([]ast.Expr{ident("_")}, ident(id.Name)))
		}
		body = append(body, n.Body.List...)
		b := &ast.BlockStmt{List: []ast.Stmt{
			define([]ast.Expr{ident(rc)}, n.X),
			&ast.ForStmt{Body: &ast.BlockStmt{List: body}},
		}}
		r.labelInner[b] = true
		return b
	case *types.Map:
		if n.Key == nil || n.Tok != token.DEFINE {
			return nil
		}
		m := r.tmpName("m")
		keyName := ""
		if id, ok := n.Key.(*ast.Ident); ok && id.Name != "_" {
			keyName = id.Name
		} else {
			keyName = r.tmpName("k")
		}
		var body []ast.Stmt
		if n.Value != nil {
			if id, ok := n.Value.(*ast.Ident); !ok || id.Name != "_" {
				okv := r.tmpName("ok")
				body = append(body,
					define([]ast.Expr{n.Value, ident(okv)}, &ast.IndexExpr{X: ident(m), Index: ident(keyName)}),
					&ast.IfStmt{Cond: &ast.UnaryExpr{Op: token.NOT, X: ident(okv)}, Body: &ast.BlockStmt{List: []ast.Stmt{&ast.BranchStmt{Tok: token.CONTINUE}}}})
				if id, ok := n.Value.(*ast.Ident); ok {
					body = append(body, assign([]ast.Expr{ident("_")}, ident(id.Name)))
				}
			}
		}
		if n.Value == nil || len(body) == 0 {
			okv := r.tmpName("ok")
			body = append(body,
				define([]ast.Expr{ident("_"), ident(okv)}, &ast.IndexExpr{X: ident(m), Index: ident(keyName)}),
				&ast.IfStmt{Cond: &ast.UnaryExpr{Op: token.NOT, X: ident(okv)}, Body: &ast.BlockStmt{List: []ast.Stmt{&ast.BranchStmt{Tok: token.CONTINUE}}}})
		}
		body = append(body, assign([]ast.Expr{ident("_")}, ident(keyName)))
		body = append(body, n.Body.List...)
		b := &ast.BlockStmt{List: []ast.Stmt{
			define([]ast.Expr{ident(m)}, n.X),
			&ast.RangeStmt{Key: ident("_"), Value: ident(keyName), Tok: token.DEFINE,
				X: call(rt("MapKeys"), ident(m), r.id(n, "rangemap")), Body: &ast.BlockStmt{List: body}},
		}}
		r.labelInner[b] = true
		return b
	}
	return nil
}
