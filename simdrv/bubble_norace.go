//go:build !race

package simdrv

import (
	"testing"
	"testing/synctest"
)

// bubble runs f as the root goroutine of a fresh synctest bubble.
func bubble(t *testing.T, f func(*testing.T)) { synctest.Test(t, f) }
