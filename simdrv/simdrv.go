// Package simdrv is the part of the harness that is linked into every engine's test binary: it runs
// single simulated executions inside synctest bubbles, loops over seeds in a worker process, shrinks
// failing choice tapes and replays them.
package simdrv

import (
	"bufio"
	"crypto/sha256"
	"encoding/json"
	"fmt"
	"os"
	"runtime"
	"runtime/debug"
	"sort"
	"strings"
	"testing"
	"time"

	"verif/simrt"
)

// Violation is one oracle failure of one run.
type Violation struct {
	Property string `json:"property"`
	Class    string `json:"class"`         // stable violation class, used by the shrinker to keep "the same" failure
	Sig      string `json:"sig,omitempty"` // signature for known-finding matching (class + history-shape predicate)
	Msg      string `json:"msg"`           // human readable detail
}

// Result is what one simulated run reports.
type Result struct {
	Seed       int64             `json:"seed"`
	Engine     string            `json:"engine"`
	Outcome    string            `json:"outcome"`
	Detail     string            `json:"detail,omitempty"`
	Violations []Violation       `json:"violations,omitempty"`
	Steps      int               `json:"steps"`
	Switches   int               `json:"switches"`
	Advances   int               `json:"advances"`
	SimNs      int64             `json:"sim_ns"`
	Tasks      int               `json:"tasks"`
	Ops        int               `json:"ops"`
	Sig        string            `json:"sig"`
	Hash       string            `json:"hash"`
	NonTrivial bool              `json:"nontrivial"`
	Faults     map[string]int    `json:"faults,omitempty"`
	Probes     map[string]int    `json:"probes,omitempty"`
	Config     map[string]any    `json:"config,omitempty"`
	History    []string          `json:"history,omitempty"`
	Schedule   []simrt.TraceEv   `json:"schedule,omitempty"`
	Tape       [][]uint32        `json:"tape,omitempty"`
	Pairs      [][2]uint32       `json:"-"`
	Points     []uint32          `json:"-"`
	Extra      map[string]string `json:"extra,omitempty"`
	Race       bool              `json:"race,omitempty"` // produced by a race-detector build
}

// Run is the context an engine gets for one simulated execution.
type Run struct {
	T         *testing.T
	Tape      *simrt.Tape
	Sim       *simrt.Sim
	Res       *Result
	Eng       Engine
	Detail    bool // record full history / schedule (replay, shrink output)
	nInjected int  // scripted errors returned so far (ErrInjected and ErrInjectedCanceled alternate)
	hist      []string
	hh        interface{ Write([]byte) (int, error) }
	hsum      func() []byte
}

// Cfg draws a configuration/workload choice.
//
//go:norace
func (r *Run) Cfg(n int) int { return r.Tape.Draw(simrt.StCfg, n) }

// CfgPick picks one of the given durations.
//
//go:norace
func CfgPick[T any](r *Run, xs ...T) T { return xs[r.Cfg(len(xs))] }

// Log appends a line to the run's event log (hashed for the determinism self-test, kept in replays).
//
//go:norace
func (r *Run) Log(format string, a ...any) {
	simrt.HarnessAcquire()
	defer simrt.HarnessRelease()
	line := fmt.Sprintf(format, a...)
	r.hh.Write([]byte(line))
	r.hh.Write([]byte{'\n'})
	if r.Detail || len(r.hist) < 400 {
		r.hist = append(r.hist, line)
	}
}

// Violate records an oracle failure.
//
//go:norace
func (r *Run) Violate(prop, class, sig, format string, a ...any) {
	simrt.HarnessAcquire()
	defer simrt.HarnessRelease()
	for _, v := range r.Res.Violations {
		if v.Property == prop && v.Class == class && v.Sig == sig {
			return
		}
	}
	r.Res.Violations = append(r.Res.Violations, Violation{Property: prop, Class: class, Sig: sig, Msg: fmt.Sprintf(format, a...)})
}

// Fault counts an injected fault that actually fired.
//
//go:norace
func (r *Run) Fault(kind string) {
	simrt.HarnessAcquire()
	r.Res.Faults[kind]++
	simrt.HarnessRelease()
}

// Probe counts a reached rare condition.
//
//go:norace
func (r *Run) Probe(kind string) {
	simrt.HarnessAcquire()
	r.Res.Probes[kind]++
	simrt.HarnessRelease()
}

// Engine is implemented by every engine package.
type Engine interface {
	Name() string
	// Body runs inside the bubble: build the system, spawn tasks, call r.Sim.Run(), evaluate oracles.
	Body(r *Run)
}

// RunOne performs one simulated execution of e under tape.
//
//go:norace
func RunOne(t *testing.T, e Engine, tape *simrt.Tape, detail bool) (res *Result) {
	res = &Result{Seed: tape.Seed, Race: simrt.RaceEnabled, Engine: e.Name(), Faults: map[string]int{}, Probes: map[string]int{}, Config: map[string]any{}}
	h := sha256.New()
	r := &Run{T: t, Tape: tape, Res: res, Eng: e, Detail: detail, hh: h, hsum: func() []byte { return h.Sum(nil) }}
	var bodyPanic any
	var bodyStack string
	if p, ok := e.(interface{ Pre(*Run) }); ok {
		p.Pre(r) // process-level preparation that must happen outside the bubble (e.g. runtime/trace)
	}
	func() {
		defer func() {
			if p := recover(); p != nil {
				// the bubble's end-of-run deadlock panic (leaked goroutines of an aborted run) is expected
				msg := fmt.Sprint(p)
				if strings.Contains(msg, "deadlock: main bubble goroutine has exited but blocked goroutines remain") ||
					strings.Contains(msg, "deadlock: all goroutines in bubble are blocked") {
					res.Probes["bubble-leak"]++
					return
				}
				bodyPanic = p
				bodyStack = string(debug.Stack())
			}
		}()
		bubble(t, func(t *testing.T) {
			defer func() {
				if p := recover(); p != nil {
					bodyPanic = p
					bodyStack = string(debug.Stack())
					if r.Sim != nil {
						r.Sim.Finish()
					}
				}
			}()
			e.Body(r)
		})
	}()
	if r.Sim != nil {
		s := r.Sim
		res.Steps = s.Steps
		res.Switches = s.Switches
		res.Advances = s.Advances
		res.Sig = fmt.Sprintf("%016x", s.Signature())
		res.Tasks = len(s.TaskNames())
		for p := range s.SwitchPair {
			res.Pairs = append(res.Pairs, p)
		}
		for p := range s.PointsHit {
			res.Points = append(res.Points, p)
		}
		if detail {
			res.Schedule = append(s.Trace, s.Tail...)
		}
		for _, tr := range s.Trace {
			fmt.Fprintf(h, "%d %s %d %d %d\n", tr.Step, tr.Task, tr.Point, tr.AdvNs, tr.NowNs)
		}
		s.Release()
	}
	if bodyPanic != nil {
		res.Outcome = "harness-panic"
		res.Detail = fmt.Sprintf("%v\n%s", bodyPanic, bodyStack)
	}
	res.Hash = fmt.Sprintf("%x", h.Sum(nil)[:8])
	res.History = r.hist
	res.Tape = tape.Consumed()
	return res
}

// Spec tells a worker process what to do.
type Spec struct {
	Mode      string  `json:"mode"` // explore | replay | shrink | hash
	SeedStart int64   `json:"seed_start"`
	SeedStep  int64   `json:"seed_step"`
	MaxRuns   int     `json:"max_runs"`
	BudgetSec float64 `json:"budget_sec"`
	Out       string  `json:"out"`
	Replay    string  `json:"replay,omitempty"`
	Property  string  `json:"property,omitempty"`
	Class     string  `json:"class,omitempty"`
	KeepOK    int     `json:"keep_ok"` // number of passing runs written in full (samples)
}

// Summary is the last line a worker writes.
type Summary struct {
	Summary     bool              `json:"summary"`
	Runs        int               `json:"runs"`
	WallSec     float64           `json:"wall_sec"`
	Steps       int64             `json:"steps"`
	SimNs       int64             `json:"sim_ns"`
	Outcomes    map[string]int    `json:"outcomes"`
	Faults      map[string]int    `json:"faults"`
	Probes      map[string]int    `json:"probes"`
	Sigs        []string          `json:"sigs"`
	NonTrivial  int               `json:"nontrivial_distinct"`
	Pairs       [][2]uint32       `json:"pairs"`
	Points      []uint32          `json:"points"`
	Ops         int64             `json:"ops"`
	ViolRuns    int               `json:"viol_runs"`
	NextSeed    int64             `json:"next_seed"`
	FirstSeed   int64             `json:"first_seed"`
	LastSeed    int64             `json:"last_seed"`
	Restart     bool              `json:"restart,omitempty"` // stopped early to be continued by a fresh process
	Race        bool              `json:"race,omitempty"`    // this worker is a race-detector build
	Hashes      string            `json:"hashes,omitempty"`  // hash-of-hashes for determinism mode
	PerSeedHash map[string]string `json:"per_seed_hash,omitempty"`
}

// ReplayFile is the on-disk format of a failure report.
type ReplayFile struct {
	Property  string          `json:"property"`
	Engine    string          `json:"engine"`
	Seed      int64           `json:"seed"`
	Class     string          `json:"class"`
	Sig       string          `json:"sig"`
	Violation string          `json:"violation"`
	Config    map[string]any  `json:"config"`
	Tape      [][]uint32      `json:"tape"`
	Schedule  []simrt.TraceEv `json:"schedule"`
	History   []string        `json:"history"`
	Hash      string          `json:"hash"`
	Shrunk    bool            `json:"shrunk"`
	OrigLen   []int           `json:"orig_tape_len,omitempty"`
}

// Worker is the entry point of the engine's TestWorker.
//
//go:norace
func Worker(t *testing.T, e Engine) {
	raw := os.Getenv("VERIF_SPEC")
	if raw == "" {
		// plain `go test`: a tiny smoke run
		for seed := int64(1); seed <= 20; seed++ {
			res := RunOne(t, e, simrt.NewTape(seed), false)
			if res.Outcome == "harness-panic" {
				t.Fatalf("seed %d: %s", seed, res.Detail)
			}
		}
		return
	}
	var spec Spec
	if err := json.Unmarshal([]byte(raw), &spec); err != nil {
		t.Fatalf("bad VERIF_SPEC: %v", err)
	}
	debug.SetGCPercent(400)
	f, err := os.Create(spec.Out)
	if err != nil {
		t.Fatal(err)
	}
	defer f.Close()
	w := bufio.NewWriter(f)
	defer w.Flush()
	enc := json.NewEncoder(w)
	switch spec.Mode {
	case "explore", "hash":
		explore(t, e, spec, enc, w)
	case "replay":
		rf := readReplay(t, spec.Replay)
		res := RunOne(t, e, simrt.ReplayTape(rf.Seed, rf.Tape), true)
		enc.Encode(res)
	case "shrink":
		rf := readReplay(t, spec.Replay)
		out := Shrink(t, e, rf, spec.BudgetSec)
		enc.Encode(out)
	default:
		t.Fatalf("unknown mode %q", spec.Mode)
	}
	if simrt.RaceEnabled {
		// the testing package fails a test during which the detector reported anything; the reports
		// have been judged run by run (race.go), so leave before it looks
		w.Flush()
		f.Close()
		os.Exit(0)
	}
}

//go:norace
func readReplay(t *testing.T, path string) *ReplayFile {
	b, err := os.ReadFile(path)
	if err != nil {
		t.Fatal(err)
	}
	var rf ReplayFile
	if err := json.Unmarshal(b, &rf); err != nil {
		t.Fatal(err)
	}
	return &rf
}

//go:norace
func explore(t *testing.T, e Engine, spec Spec, enc *json.Encoder, w *bufio.Writer) {
	start := time.Now()
	sum := Summary{Summary: true, Race: simrt.RaceEnabled, Outcomes: map[string]int{}, Faults: map[string]int{}, Probes: map[string]int{}, FirstSeed: spec.SeedStart}
	sigs := map[string]struct{}{}
	pairs := map[[2]uint32]struct{}{}
	points := map[uint32]struct{}{}
	if spec.SeedStep == 0 {
		spec.SeedStep = 1
	}
	seed := spec.SeedStart
	kept := 0
	violKept := 0
	if spec.Mode == "hash" {
		sum.PerSeedHash = map[string]string{}
	}
	for {
		if spec.MaxRuns > 0 && sum.Runs >= spec.MaxRuns {
			break
		}
		if spec.BudgetSec > 0 && time.Since(start).Seconds() >= spec.BudgetSec {
			break
		}
		res := RunOne(t, e, simrt.NewTape(seed), os.Getenv("VERIF_DETAIL") != "")
		sum.Runs++
		sum.LastSeed = seed
		sum.Steps += int64(res.Steps)
		sum.SimNs += res.SimNs
		sum.Ops += int64(res.Ops)
		sum.Outcomes[res.Outcome]++
		for k, v := range res.Faults {
			sum.Faults[k] += v
		}
		for k, v := range res.Probes {
			sum.Probes[k] += v
		}
		if res.NonTrivial {
			if _, ok := sigs[res.Sig]; !ok {
				sigs[res.Sig] = struct{}{}
			}
		}
		for _, p := range res.Pairs {
			pairs[p] = struct{}{}
		}
		for _, p := range res.Points {
			points[p] = struct{}{}
		}
		if spec.Mode == "hash" {
			sum.PerSeedHash[fmt.Sprint(seed)] = res.Hash + ":" + res.Sig + ":" + res.Outcome
		}
		bad := len(res.Violations) > 0 || res.Outcome == "harness-panic"
		if !bad && res.Outcome == "budget" && kept < spec.KeepOK+3 {
			kept++
			res2 := *res
			res2.Tape = nil
			if len(res2.History) > 30 {
				res2.History = res2.History[len(res2.History)-30:]
			}
			enc.Encode(&res2)
			w.Flush()
		}
		if bad {
			sum.ViolRuns++
			if violKept < 40 {
				violKept++
				enc.Encode(res)
				w.Flush()
			} else {
				// keep it light: only the classification
				enc.Encode(&Result{Seed: res.Seed, Engine: res.Engine, Outcome: res.Outcome, Violations: res.Violations, Tape: res.Tape, Config: res.Config})
				w.Flush()
			}
		} else if kept < spec.KeepOK && res.NonTrivial {
			kept++
			res2 := *res
			if len(res2.History) > 60 {
				res2.History = res2.History[:60]
			}
			res2.Tape = nil
			enc.Encode(&res2)
			w.Flush()
		}
		seed += spec.SeedStep
		if sum.Runs%2000 == 0 {
			runtime.GC()
		}
		if sum.Runs%256 == 0 || simrt.RaceEnabled && sum.Runs%32 == 0 {
			// goroutines of aborted runs that are blocked inside the runtime can never be reclaimed
			// (their bubble is dead): hand over to a fresh process before memory gets out of hand.
			// In a race-detector build most of what they hold is the detector's own per-goroutine state,
			// which the Go runtime's statistics do not see: there the resident set size decides.
			var ms runtime.MemStats
			runtime.ReadMemStats(&ms)
			if ms.Sys > memLimit() || simrt.RaceEnabled && rssBytes() > 2*memLimit() {
				sum.Restart = true
				break
			}
		}
	}
	sum.NextSeed = seed
	sum.WallSec = time.Since(start).Seconds()
	sum.NonTrivial = len(sigs)
	for s := range sigs {
		sum.Sigs = append(sum.Sigs, s)
	}
	sort.Strings(sum.Sigs)
	for p := range pairs {
		sum.Pairs = append(sum.Pairs, p)
	}
	for p := range points {
		sum.Points = append(sum.Points, p)
	}
	enc.Encode(&sum)
	w.Flush()
}

// rssBytes is the resident set size of this process (0 if it cannot be read).
//
//go:norace
func rssBytes() uint64 {
	b, err := os.ReadFile("/proc/self/statm")
	if err != nil {
		return 0
	}
	f := strings.Fields(string(b))
	if len(f) < 2 {
		return 0
	}
	var pages uint64
	fmt.Sscan(f[1], &pages)
	return pages * uint64(os.Getpagesize())
}

//go:norace
func memLimit() uint64 {
	if v := os.Getenv("VERIF_WORKER_MEM_MB"); v != "" {
		var n uint64
		if _, err := fmt.Sscan(v, &n); err == nil && n > 0 {
			return n << 20
		}
	}
	return 1200 << 20
}

// hasClass reports whether res shows a violation of (prop, class).
//
//go:norace
func hasClass(res *Result, prop, class, sig string) *Violation {
	for i, v := range res.Violations {
		if v.Property == prop && v.Class == class && (sig == "" || v.Sig == sig) {
			return &res.Violations[i]
		}
	}
	return nil
}

// Shrink minimises the tape of a failing run while the same violation class persists.
//
//go:norace
func Shrink(t *testing.T, e Engine, rf *ReplayFile, budgetSec float64) *ReplayFile {
	if budgetSec <= 0 {
		budgetSec = 60
	}
	deadline := time.Now().Add(time.Duration(budgetSec * float64(time.Second)))
	best := cloneTape(rf.Tape)
	origLen := []int{}
	for _, s := range best {
		origLen = append(origLen, len(s))
	}
	try := func(cand [][]uint32) (*Result, bool) {
		res := RunOne(t, e, simrt.ReplayTape(rf.Seed, cand), false)
		if res.Outcome == "harness-panic" {
			return res, false
		}
		return res, hasClass(res, rf.Property, rf.Class, rf.Sig) != nil
	}
	res0, ok := try(best)
	if !ok {
		out := *rf
		out.Violation = "NOT REPRODUCED on replay: " + rf.Violation
		out.Class = "not-reproduced"
		_ = res0
		return &out
	}
	// the consumed tape is the canonical starting point
	best = res0.Tape
	improved := true
	for improved && time.Now().Before(deadline) {
		improved = false
		for st := len(best) - 1; st >= 0 && time.Now().Before(deadline); st-- {
			// 1. truncate (suffix becomes zeros)
			for cut := len(best[st]) / 2; cut >= 1 && time.Now().Before(deadline); cut /= 2 {
				for len(best[st]) >= cut {
					cand := cloneTape(best)
					cand[st] = cand[st][:len(cand[st])-cut]
					if r, ok := try(cand); ok {
						best = trimTo(cand, r.Tape)
						improved = true
					} else {
						break
					}
				}
			}
			// 2. delete blocks
			for blk := len(best[st]) / 2; blk >= 1 && time.Now().Before(deadline); blk /= 2 {
				for i := 0; i+blk <= len(best[st]) && time.Now().Before(deadline); {
					cand := cloneTape(best)
					cand[st] = append(append([]uint32{}, cand[st][:i]...), cand[st][i+blk:]...)
					if r, ok := try(cand); ok && tapeLen(r.Tape) < tapeLen(best) {
						best = trimTo(cand, r.Tape)
						improved = true
					} else {
						i += blk
					}
				}
			}
			// 3. zero blocks, then single entries, then halve
			for blk := len(best[st]) / 2; blk >= 1 && time.Now().Before(deadline); blk /= 2 {
				for i := 0; i+blk <= len(best[st]) && time.Now().Before(deadline); i += blk {
					allZero := true
					for _, v := range best[st][i : i+blk] {
						if v != 0 {
							allZero = false
						}
					}
					if allZero {
						continue
					}
					cand := cloneTape(best)
					for j := i; j < i+blk; j++ {
						cand[st][j] = 0
					}
					if r, ok := try(cand); ok {
						best = trimTo(cand, r.Tape)
						improved = true
					}
				}
			}
			for i := 0; i < len(best[st]) && time.Now().Before(deadline); i++ {
				for best[st][i] > 0 && time.Now().Before(deadline) {
					cand := cloneTape(best)
					cand[st][i] = cand[st][i] / 2
					if r, ok := try(cand); ok {
						best = trimTo(cand, r.Tape)
						improved = true
						if i >= len(best[st]) {
							break
						}
					} else {
						break
					}
				}
			}
		}
	}
	final := RunOne(t, e, simrt.ReplayTape(rf.Seed, best), true)
	v := hasClass(final, rf.Property, rf.Class, rf.Sig)
	out := &ReplayFile{Property: rf.Property, Engine: e.Name(), Seed: rf.Seed, Class: rf.Class, Config: final.Config,
		Tape: final.Tape, Schedule: final.Schedule, History: final.History, Hash: final.Hash, Shrunk: true, OrigLen: origLen}
	if v != nil {
		out.Sig = v.Sig
		out.Violation = v.Msg
	} else {
		out.Class = "not-reproduced"
		out.Violation = "shrunk tape did not reproduce on the final detailed run"
	}
	return out
}

//go:norace
func cloneTape(t [][]uint32) [][]uint32 {
	out := make([][]uint32, len(t))
	for i := range t {
		out[i] = append([]uint32{}, t[i]...)
	}
	return out
}

//go:norace
func tapeLen(t [][]uint32) int {
	n := 0
	for _, s := range t {
		n += len(s)
	}
	return n
}

// trimTo keeps, per stream, only what the run consumed, dropping trailing zeros (implied).
//
//go:norace
func trimTo(cand, consumed [][]uint32) [][]uint32 {
	out := make([][]uint32, len(cand))
	for i := range cand {
		n := len(cand[i])
		if i < len(consumed) && len(consumed[i]) < n {
			n = len(consumed[i])
		}
		s := append([]uint32{}, cand[i][:n]...)
		for len(s) > 0 && s[len(s)-1] == 0 {
			s = s[:len(s)-1]
		}
		out[i] = s
	}
	return out
}

// Start creates the simulation for this run (call from the bubble root, after drawing the configuration).
//
//go:norace
func (r *Run) Start(cfg simrt.Config) *simrt.Sim {
	raceMark()
	r.Sim = simrt.New(r.Tape, cfg)
	if r.Detail {
		r.Sim.TraceTail = 200
	}
	return r.Sim
}

// Finish records the scheduler's verdict and tears the simulation down.
//
//go:norace
func (r *Run) Finish(out simrt.Outcome) {
	r.Res.Outcome = out.Kind.String()
	r.Res.Detail = out.Detail
	if out.Kind == simrt.Fatal && strings.HasPrefix(out.Detail, "simrt:") {
		r.Res.Outcome = "harness-panic" // the simulator lost track of the system: harness trouble, never a violation
	}
	r.Res.SimNs = int64(r.Sim.Now())
	if rp, ok := r.Eng.(interface{ RaceProps() []string }); ok {
		r.judgeRaces(rp.RaceProps())
	}
	r.Sim.Finish()
}

// DrawSched draws the common scheduler parameters (swarm).
//
//go:norace
func (r *Run) DrawSched(timeSteps []time.Duration, maxIdle time.Duration, maxSteps int) simrt.Config {
	c := simrt.Config{MaxSteps: maxSteps, MaxIdle: maxIdle, TimeSteps: timeSteps}
	c.YieldDenom = []int{1, 1, 2, 4}[r.Cfg(4)]
	c.AdvanceDenom = []int{0, 40, 10, 3}[r.Cfg(4)]
	c.PlainRange = []int{0, 0, 400, 60, 12}[r.Cfg(5)]
	// a quarter of the runs use the priority-based (PCT) strategy of depth 1-3
	if r.Cfg(4) == 0 {
		c.PCT = 1 + r.Cfg(3)
		c.PCTSteps = []int{40, 150, 600}[r.Cfg(3)]
	}
	// ... and another quarter the location-hold strategy
	if c.PCT == 0 && r.Cfg(3) == 0 {
		c.HoldOrdinal = 1 + r.Cfg(60)
	}
	r.Res.Config["sched"] = fmt.Sprintf("yield=1/%d advance=1/%d plain=%d pct=%d/%d hold=%d", c.YieldDenom, c.AdvanceDenom, c.PlainRange, c.PCT, c.PCTSteps, c.HoldOrdinal)
	return c
}
