//go:build race

package simdrv

import (
	"testing"
	_ "unsafe" // go:linkname
)

// bubble runs f as the root goroutine of a fresh synctest bubble. testing/synctest.Test fails - and
// leaves - the calling test as soon as the race detector has reported anything during the bubble, which
// would end the worker at the first report; the race-detector build therefore enters the bubble through
// the runtime entry point that synctest.Test itself uses (the binary is linked with -checklinkname=0).
// The end-of-bubble deadlock panic reaches the caller exactly as it does through synctest.Test.
//
//go:norace
func bubble(t *testing.T, f func(*testing.T)) { synctestRun(func() { f(t) }) }

//go:linkname synctestRun internal/synctest.Run
func synctestRun(f func())
