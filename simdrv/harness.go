package simdrv

import (
	"context"
	"errors"
	"fmt"
	"time"

	"verif/simrt"
)

// Harness point ids shared by engines (instrumentation ids are < 1e6).
const (
	PtOp      = 1000001
	PtSleep   = 1000002
	PtExpWait = 1000003
	PtSdWait  = 1000004
	PtStub    = 1000005
)

// OpCall is one ForceFlush / Shutdown style operation of a workload task.
type OpCall struct {
	Kind    string // flush | shutdown | ...
	Level   string // which object it was called on
	CtxKind string
	Task    string
	Inv     uint64
	Ret     uint64
	Err     error
}

// ShutdownContext classifies op relative to the Shutdown operations in ops: whether a Shutdown was in
// progress at some moment of op, or had failed / succeeded before op was invoked. Used in violation
// signatures so that known findings are matched narrowly.
//
//go:norace
func ShutdownContext(ops []*OpCall, op *OpCall) string {
	res := "plain"
	rank := map[string]int{"plain": 0, "after-shutdown": 1, "after-failed-shutdown": 2, "overlaps-shutdown": 3}
	opRet := op.Ret
	if opRet == 0 {
		opRet = ^uint64(0)
	}
	for _, o := range ops {
		if o == op || o.Kind != "shutdown" {
			continue
		}
		c := "plain"
		switch {
		case o.Inv < opRet && (o.Ret == 0 || o.Ret > op.Inv):
			c = "overlaps-shutdown"
		case o.Ret != 0 && o.Ret < op.Inv && o.Err != nil:
			c = "after-failed-shutdown"
		case o.Ret != 0 && o.Ret < op.Inv:
			c = "after-shutdown"
		}
		if rank[c] > rank[res] {
			res = c
		}
	}
	return res
}

// FirstShutdownInv returns the stamp of the earliest Shutdown invocation (0 if none).
//
//go:norace
func FirstShutdownInv(ops []*OpCall) uint64 {
	var f uint64
	for _, op := range ops {
		if op.Kind == "shutdown" && (f == 0 || op.Inv < f) {
			f = op.Inv
		}
	}
	return f
}

// MkCtx builds a caller context of the given kind: 0 background, 1 already cancelled, 2 timeout d.
//
//go:norace
func MkCtx(kind int, d time.Duration) (context.Context, context.CancelFunc, string) {
	switch kind {
	case 1:
		ctx, cancel := context.WithCancel(context.Background())
		cancel()
		return ctx, cancel, "cancelled"
	case 2:
		ctx, cancel := context.WithTimeout(context.Background(), d)
		return ctx, cancel, fmt.Sprintf("timeout(%v)", d)
	}
	return context.Background(), func() {}, "background"
}

// ErrInjected is returned by scripted stubs.
var ErrInjected = errors.New("injected exporter error")

// ErrInjectedCanceled is the other error scripted stubs return: an exporter's own error that wraps
// context.Canceled although the context it was given is alive (a cancelled sub-request, say). Code that
// takes errors.Is(err, context.Canceled) for "I am being stopped" is wrong about it (after seeded change
// C01-m, whose batch worker quits on such an error while the processor stays open).
var ErrInjectedCanceled = fmt.Errorf("injected exporter error: %w", context.Canceled)

// Injected alternates between the two scripted errors (no draw: the tape layout of earlier replays stands).
//
//go:norace
func (r *Run) Injected() error {
	r.nInjected++
	if r.nInjected%2 == 0 {
		r.Fault("exporter-error-wraps-context-canceled")
		return ErrInjectedCanceled
	}
	return ErrInjected
}

// SleepCtx waits d or until ctx is done, as a scheduling-aware blocking operation.
//
//go:norace
func SleepCtx(ctx context.Context, d time.Duration) error {
	simrt.Yield(PtExpWait)
	tm := time.NewTimer(d)
	defer tm.Stop()
	var err error
	select {
	case <-tm.C:
	case <-ctx.Done():
		err = ctx.Err()
	}
	simrt.Woke(PtExpWait)
	return err
}

// Behave plays one tape-chosen behaviour of an exporter-like stub. In fault-free runs the stub is
// only occasionally slow; in faulty runs it errors, is slow while ignoring or honouring ctx, or hangs
// until ctx is done (only when ctx carries a deadline, so that every hang is bounded).
//
//go:norace
func (r *Run) Behave(ctx context.Context, what string, faulty bool, delays []time.Duration) error {
	sim := r.Sim
	if !faulty {
		if sim.Draw(4) == 1 {
			d := delays[sim.Draw(min(3, len(delays)))]
			r.Fault(what + "-slow")
			simrt.Sleep(d, PtExpWait)
		}
		return nil
	}
	_, hasDeadline := ctx.Deadline()
	switch sim.Draw(7) {
	case 0, 1:
		return nil
	case 2:
		r.Fault(what + "-error")
		return r.Injected()
	case 3:
		d := delays[sim.Draw(len(delays))]
		r.Fault(what + "-slow-ignore-ctx")
		simrt.Sleep(d, PtExpWait)
		return nil
	case 4:
		d := delays[sim.Draw(len(delays))]
		r.Fault(what + "-slow-honour-ctx")
		return SleepCtx(ctx, d)
	case 5:
		if hasDeadline {
			r.Fault(what + "-hang-until-ctx")
			simrt.Yield(PtExpWait)
			<-ctx.Done()
			simrt.Woke(PtExpWait)
			return ctx.Err()
		}
		d := delays[sim.Draw(len(delays))]
		r.Fault(what + "-slow-honour-ctx")
		return SleepCtx(ctx, d)
	default:
		d := delays[sim.Draw(len(delays))]
		r.Fault(what + "-slow-then-error")
		simrt.Sleep(d, PtExpWait)
		return r.Injected()
	}
}
