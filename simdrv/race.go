package simdrv

import (
	"os"
	"regexp"
	"sort"
	"strconv"
	"strings"

	"verif/simrt"
)

// Data-race oracle of the race-detector builds (DESIGN.md §2.11). The engines whose properties demand
// race freedom are also built with -race. There the simulator hides its own synchronisation from the
// detector (simrt/race_on.go), so the detector's happens-before relation is the one the code under
// test establishes itself, and a pair of accesses that the schedule merely serialised is reported.
// The detector writes its reports to the file named by GORACE=log_path=...; a run owns the reports
// that appear between the start of the run and the return of the scheduler (teardown of an aborted
// run executes leaked goroutines for real and is not judged).

const sutPrefix = "go.opentelemetry.io/otel"

var raceLogOff int64

//go:norace
func raceLogPath() string {
	for _, f := range strings.Fields(os.Getenv("GORACE")) {
		if p, ok := strings.CutPrefix(f, "log_path="); ok {
			return p + "." + strconv.Itoa(os.Getpid())
		}
	}
	return ""
}

// raceMark remembers where the detector's log ends now.
//
//go:norace
func raceMark() {
	if !simrt.RaceEnabled {
		return
	}
	if st, err := os.Stat(raceLogPath()); err == nil {
		raceLogOff = st.Size()
	}
}

// RaceAccess is one side of a reported race.
type RaceAccess struct {
	Kind  string   // Read | Write | Previous read | ...
	Stack []string // function names, innermost first
	Owner string   // sut | harness | other
	Site  string   // innermost function of the owner (or of the stack)
}

var reAccess = regexp.MustCompile(`^(Read|Write|Previous read|Previous write|Atomic read|Atomic write|Previous atomic read|Previous atomic write) at 0x[0-9a-f]+ by `)

// parseRaceReports splits the detector's output into reports and classifies both accesses of each.
//
//go:norace
func parseRaceReports(text string) (out [][2]RaceAccess) {
	for _, rep := range strings.Split(text, "==================") {
		if !strings.Contains(rep, "WARNING: DATA RACE") {
			continue
		}
		var accs []RaceAccess
		var cur *RaceAccess
		for _, l := range strings.Split(rep, "\n") {
			switch {
			case reAccess.MatchString(l):
				accs = append(accs, RaceAccess{Kind: reAccess.FindStringSubmatch(l)[1]})
				cur = &accs[len(accs)-1]
			case strings.HasPrefix(l, "Goroutine ") || strings.HasPrefix(l, "Previous ") && cur == nil:
				cur = nil
			case strings.TrimSpace(l) == "":
				cur = nil
			case cur != nil && strings.HasPrefix(l, "  ") && !strings.HasPrefix(l, "      "):
				fn := strings.TrimSpace(l)
				if i := strings.LastIndex(fn, "("); i > 0 {
					fn = fn[:i]
				}
				cur.Stack = append(cur.Stack, fn)
			}
		}
		if len(accs) < 2 {
			continue
		}
		for i := range accs[:2] {
			a := &accs[i]
			a.Owner = "other"
			if len(a.Stack) > 0 {
				a.Site = a.Stack[0]
			}
			// An access made by the scrape machinery itself (client_golang turning the metrics that the
			// exporter's Collect produced into the exposition format) works on objects the exporter
			// created and handed over: it is the exporter's counterpart whoever called Gather.
			if inner := firstNonRuntime(a.Stack); strings.HasPrefix(inner, "github.com/prometheus/client_golang/") {
				a.Owner, a.Site = "consumer", inner
				continue
			}
			for _, fn := range a.Stack {
				if strings.HasPrefix(fn, "verif/") {
					a.Owner, a.Site = "harness", fn
					break
				}
				if strings.HasPrefix(fn, sutPrefix) {
					a.Owner, a.Site = "sut", fn
					break
				}
			}
		}
		out = append(out, [2]RaceAccess{accs[0], accs[1]})
	}
	return out
}

//go:norace
func firstNonRuntime(stack []string) string {
	for _, fn := range stack {
		if !strings.HasPrefix(fn, "runtime.") && !strings.HasPrefix(fn, "internal/") && !strings.HasPrefix(fn, "sync/atomic.") {
			return fn
		}
	}
	return ""
}

// shortFn strips the module prefix and the numbering of function literals.
//
//go:norace
func shortFn(fn string) string {
	fn = strings.TrimPrefix(fn, sutPrefix+"/")
	return regexp.MustCompile(`\.func\d+(\.\d+)*$|\.gowrap\d+$`).ReplaceAllString(fn, ".func")
}

// judgeRaces turns the reports that belong to this run into violations of the given properties. A
// report counts when the innermost frame that is not runtime or library code belongs to the code
// under test on both sides, or on one side while the other access is made by client_golang on objects
// the exporter handed to it; a side that belongs to harness code (a stub called back by the SDK, say) is
// the harness's own business and only counted.
//
//go:norace
func (r *Run) judgeRaces(props []string) {
	s := r.Sim
	if !simrt.RaceEnabled || s == nil || s.RaceErrsAtEnd <= s.RaceErrsAtStart {
		return
	}
	b, err := os.ReadFile(raceLogPath())
	if err != nil || int64(len(b)) < raceLogOff {
		r.Res.Outcome = "harness-panic"
		r.Res.Detail = "the race detector counted a report but its log cannot be read: " + raceLogPath()
		return
	}
	text := string(b[raceLogOff:])
	for _, rep := range parseRaceReports(text) {
		a, b := rep[0], rep[1]
		// (sut + consumer: e.g. a map handed to client_golang and written again while the registry reads it)
		if !(a.Owner == "sut" && (b.Owner == "sut" || b.Owner == "consumer") || b.Owner == "sut" && a.Owner == "consumer") {
			r.Probe("race-report-not-in-sdk/" + a.Owner + "+" + b.Owner)
			if r.Res.Extra == nil {
				r.Res.Extra = map[string]string{}
			}
			r.Res.Extra["race-report-not-in-sdk"] = a.Kind + " " + strings.Join(a.Stack, " < ") + " || " + b.Kind + " " + strings.Join(b.Stack, " < ")
			continue
		}
		sites := []string{shortFn(a.Site), shortFn(b.Site)}
		sort.Strings(sites)
		for _, p := range props {
			r.Violate(p, "data-race", "data-race/"+sites[0]+"~"+sites[1],
				"the race detector reports unsynchronised accesses: %s in %s [%s] and %s in %s [%s]",
				strings.ToLower(a.Kind), a.Site, strings.Join(a.Stack, " < "), strings.ToLower(b.Kind), b.Site, strings.Join(b.Stack, " < "))
		}
	}
}
