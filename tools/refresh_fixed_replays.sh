#!/bin/sh
# Re-records one replay per repaired defect: the fix is reverted in a scratch worktree of /repo (never in /repo
# itself), the property's quick check is run against it (VERIF_REPO), and the first minimised replay it reports
# is kept as replays/fixed/<prop>-<commit>.json. The replay must show the violation on the reverted tree and
# nothing on the repaired one. Usage: tools/refresh_fixed_replays.sh [prop...]
cd "$(dirname "$0")/.."
snap=$(mktemp -d /tmp/fixedsnap.XXXXXX)
git -C /repo worktree add --detach "$snap" HEAD -q || exit 2
trap 'git -C /repo worktree remove --force "$snap"; git -C /repo worktree prune' EXIT INT TERM
export VERIF_REPO=$snap VERIF_EVIDENCE_DIR=$(pwd)/scratch/evidence-selftest
mkdir -p replays/fixed
for d in selftest/mutants/*/revert_fix_*.diff; do
  prop=$(basename "$(dirname "$d")"); commit=$(basename "$d" .diff | sed 's/revert_fix_//')
  [ $# -gt 0 ] && ! echo " $* " | grep -q " $prop " && continue
  git -C "$snap" apply "$(realpath "$d")" || { echo "$d does not apply"; continue; }
  out=$(./check "$prop" quick 2>&1)
  rp=$(echo "$out" | sed -n 's/^VIOLATION property=[A-Z0-9]* replay=//p' | head -1)
  if [ -z "$rp" ]; then echo "MISSED $d"; git -C "$snap" checkout -- .; continue; fi
  dest=replays/fixed/$prop-$commit.json
  cp "$rp" "$dest"
  with=$(./check "$prop" --replay "$dest" 2>&1 | grep -c '^VIOLATION')
  git -C "$snap" checkout -- .
  without=$(./check "$prop" --replay "$dest" 2>&1 | grep -c '^VIOLATION')
  echo "$dest: violation on reverted tree=$with on repaired tree=$without ($(echo "$out" | grep -A1 '^VIOLATION' | grep class= | head -1 | cut -c1-160))"
done
