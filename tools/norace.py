#!/usr/bin/env python3
"""Put //go:norace in front of every function of the given Go files (harness code only).

In a race-detector build the simulator hides its own synchronisation from the detector (simrt/race_on.go),
so harness state that is protected by the scheduling token alone would look racy. Harness functions are
therefore compiled without race instrumentation; function literals inherit the directive."""
import re, sys
for path in sys.argv[1:]:
    lines = open(path).read().split('\n')
    out = []
    for i, l in enumerate(lines):
        if l.startswith('func ') and not l.rstrip().endswith(')') or (l.startswith('func ') and '{' in l):
            prev = out[-1] if out else ''
            if prev.strip() != '//go:norace' and 'func getg()' not in l:
                if prev.startswith('//') and not prev.startswith('//go:'):
                    out.append('//')
                out.append('//go:norace')
        out.append(l)
    open(path, 'w').write('\n'.join(out))
