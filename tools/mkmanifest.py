#!/usr/bin/env python3
"""Regenerates /verif/MANIFEST.json from the tables below (single source of truth for the manifest)."""
import json, os
root = os.path.dirname(os.path.dirname(os.path.abspath(__file__)))

TECH = "deterministic simulation with fault injection (seeded schedule/fault search under a token scheduler in a synctest bubble, history oracle, shrunk replay)"

NA = {
 "C03":"trace-context inject/extract and tracestate edits are pure functions of a header string / member list; no schedule, clock, I/O, fault or shared state exists for a simulator to control",
 "C04":"the exported span is a deterministic function of one sequential call sequence and six limits; nothing to schedule or fault (the concurrent face of the same object is C10)",
 "C05":"attribute-set construction, equality, filtering and encoding are pure, allocation-local computations",
 "C07":"bucket placement and rescaling are a pure function of the measurement sequence and aggregation parameters",
 "C09":"sampling decisions are a pure function of (trace ID, ratio, parent context, sampler) and the property quantifies over inputs, configurations and programs, not over schedules, clocks or faults; its only concurrent element, uniqueness of randomly generated IDs, could fail only through a data race in the ID generator, which is incidentally within reach of the race-detector build of the C10 engine (concurrent child Start) but is not a check of C09",
 "C11":"baggage parsing, serialisation and copy-on-write edits are pure value computations",
 "C13":"OTLP/Zipkin encoding is a pure transform of in-memory telemetry to protobuf/JSON",
 "C17":"log-record attribute limits are a deterministic function of one sequential edit sequence (clone isolation under concurrency is exercised by C06)",
 "C19":"resource merge, environment parsing and detector folding are pure functions of their operands",
 "C20":"configuration resolution is a pure function of (options, environment) evaluated once in a constructor; no schedule, clock or fault is involved",
}

# engine -> (kind text)
ENGINES = {
 "promsim": (["C18"], "token scheduler over simgen-instrumented exporters/prometheus and sdk/metric with the real client_golang registry; Gather worker goroutines adopted by the scheduler"),
 "otlpretry": (["C14"], "six real OTLP exporters against a scripted collector over an in-memory transport inside the bubble (real net/http and gRPC stacks on fake time); reference retry-policy oracle"),
 "globalsim": (["C16"], "token scheduler over simgen-instrumented otel + internal/global with the real SDK installed as delegate; shadow-lock cycle detection"),
 "lifecycle": (["C15"], "token scheduler over simgen-instrumented sdk/trace, sdk/metric, sdk/log providers with stock processors/readers/exporters behind thin counting wrappers"),
 "metricsim": (["C02","C08","C12"], "token scheduler over simgen-instrumented sdk/metric and internal/aggregate; delta + cumulative ManualReader, optional PeriodicReader with scripted exporter; bit-decoded conservation oracle, joint collection points"),
 "spanlin": (["C10"], "token scheduler over simgen-instrumented sdk/trace; recording SpanProcessors; porcupine linearizability check against a sequential span model; runtime/trace toggled per seed block"),
 "bsp": (["C01"], "token scheduler over simgen-instrumented sdk/trace inside a synctest bubble; scripted SpanExporter"),
 "logbatch": (["C06"], "token scheduler over simgen-instrumented sdk/log inside a synctest bubble; scripted log Exporter and a mutating second Processor"),
}

CHECKS = {
 "C18": dict(engine="promsim",
   text="schedule-dependent clauses of C18: seeded search over interleavings of measurements on counters, up-down counters, gauges and histograms (names from a fixed edge-case list, exporter options swarm-drawn, instruments and scopes appearing between scrapes) with concurrent Registry.Gather calls through the real client_golang registry; oracle: no panic in any task or Gather worker, Gather returns no error, every scraped value within its may/must window by bit-decoding and non-decreasing per scraper, histogram count and buckets consistent, one series per instrument, target/scope info as configured, exact totals at quiescence, no exporter error for valid instruments; exporter handed to its provider late in a quarter of the runs (earlier scrapes empty, target_info carries the provider's resource); race freedom by the happens-before oracle of the race-detector build",
   ref="DESIGN.md §3 C18",
   note="the name-translation and label-sanitisation clauses over all names/units/options are a pure function of the instrument description and are NOT decided by this check (only a fixed list of 24 edge-case names is exercised, which is how the 'total' panic was found). A quarter of the workers run a race-detector build of the same engine in which the simulator's own synchronisation is hidden from the detector, so that accesses the schedule merely serialised are reported as the data race they are (DESIGN.md §2.11)"),
 "C14": dict(engine="otlpretry",
   text="seeded search over collector response sequences (every HTTP status of the table with and without Retry-After, every gRPC code with and without RetryInfo, partial successes, slow responses, temporary dial errors), retry configurations (disabled, zero/short/long elapsed limits), exporter and context timeouts and Shutdown instants, for each of the six OTLP exporters talking to a real in-bubble net/http or gRPC server on exact simulated time; reference-policy oracle over the collector's attempt log: retry only after retryable outcomes, identical payloads, server-supplied delay honoured, stop at first success / non-retryable outcome and report it, no attempt after the deadline or after Shutdown returned (for the trace exporters: after Shutdown cancelled the exports under way, as they document), bounded return time, give up only when the budget requires it, partial success reported to the error handler",
   ref="DESIGN.md §3 C14",
   note="goroutines of net/http and gRPC are not scheduled by the simulator; one or two export calls in flight; HTTP transport faults are temporary dial errors and per-attempt client timeouts only; known findings C14-K1 (Retry-After as nanoseconds) and C14-K2 (otlploghttp Shutdown does not interrupt a retrying export) are reported as KNOWN-FINDING"),
 "C16": dict(engine="globalsim",
   text="seeded search over interleavings of goroutines that obtain tracers and meters from the global API, create instruments (same and different names, every synchronous kind plus observable counters), record bit-coded measurements, start/end spans, register and unregister callbacks, while another goroutine calls SetMeterProvider / SetTracerProvider / SetTextMapPropagator in any order; oracle: may/must windows around installation for measurements and spans, one probe measurement through every instrument object ever handed out, callbacks invoked exactly once per SDK collection unless unregistered, tracer objects obtained before / during / after installation all connected, no panic, no deadlock (cycle in the shadow lock graph), no call that never returns, no data race (happens-before oracle of the race-detector build)",
   ref="DESIGN.md §3 C16",
   note="process globals are put back between runs by an overlay-added reset function (build overlay only). A quarter of the workers run a race-detector build of the same engine in which the simulator's own synchronisation is hidden from the detector, so that accesses the schedule merely serialised are reported as the data race they are (DESIGN.md §2.11)"),
 "C15": dict(engine="lifecycle",
   text="seeded search over sequences and interleavings of Register/Unregister (of registered, unregistered and never-registered processors), Tracer/Meter/Logger creation, Start/End, Add, Emit, Collect, ForceFlush and Shutdown (repeated, concurrent, with background / cancelled / expiring contexts) on the three SDK providers with the stock processors, readers and exporters including nil exporters; oracle: may/must membership windows for span delivery, shutdown at most once ever and exactly once by the time Unregister / provider Shutdown returned nil, everything registered has been asked to shut down once a provider Shutdown has returned (also with an error), no-op tracers and nothing written by the stock exporters after Shutdown, no panic (including panics in SDK-spawned goroutines), no deadlock, no call that never returns",
   ref="DESIGN.md §3 C15",
   note="stock exporters run for real (stdout exporters write to a stamped in-memory writer); known findings C15-K1/K2 are reported as KNOWN-FINDING. A quarter of the workers run a race-detector build of the same engine in which the simulator's own synchronisation is hidden from the detector: a data race between two accesses of the code under test is reported as a violation (DESIGN.md §2.11)"),
 "C02": dict(engine="metricsim",
   text="seeded search over interleavings of Add/Record from several goroutines with Collect on a delta and a cumulative ManualReader, a PeriodicReader's interval exports, ForceFlush and the final Shutdown collection; every increment of an instrument is a distinct power of two, so each reported value names exactly the set of measurements it contains; oracle: each measurement in exactly one delta collection, within its may/must window, seen by every reader, cumulative never forgets, monotonic sums never decrease, flush/shutdown visibility",
   ref="DESIGN.md §3 C02",
   note="sequentially consistent interleavings of instrumented sdk/metric code (statement granularity plus split read-modify-writes); the periodic reader's exporter is a stub; sampling, not enumeration; since waves 9-12: an instrument of a second scope created late and concurrently, int64/float64 variants, lazy runs in which every instrument is created by the recorders, every collection of the cumulative reader compared with its own callbacks' observations; callbacks never return errors (seeded change C02-m is therefore not caught, DESIGN.md §7). A quarter of the workers run a race-detector build of the same engine in which the simulator's own synchronisation is hidden from the detector: a data race between two accesses of the code under test is reported as a violation (DESIGN.md §2.11)"),
 "C08": dict(engine="metricsim",
   text="same simulated histories as C02 with joint collection points (delta and cumulative reader collected back to back while no measurement is in flight, recorders still alive): cumulative sums / histogram count, sum, buckets, min, max equal the fold of all deltas so far; delta intervals adjacent and non-overlapping across zero and long simulated gaps, cumulative start fixed; asynchronous instruments report exactly the observed sets with delta = observed - previously observed while callbacks are registered and unregistered concurrently; gauges report the last value of the cycle",
   ref="DESIGN.md §3 C08",
   note="joint points are produced by a harness gate (a legal schedule restriction); float64 exponential histograms are compared after rescaling to the coarsest scale; with a cardinality limit synchronous instruments are compared by totals (identities may legitimately differ between the readers) and asynchronous ones exactly after the redirect-to-overflow rule; collections with expiring / cancelled contexts are part of the workload; known finding C08-K1 (observations of an abandoned collection leak into the next one) is reported as KNOWN-FINDING"),
 "C12": dict(engine="metricsim",
   text="same simulated histories with the experimental cardinality limit really set (L in 1,2,3,5) and views (attribute filter, rename, drop, drop in front of a keeping view, two and three views on one instrument): per collection at most L sets and at most one overflow set, overflow only when more than L-1 sets were offered, every measurement bit under its own filtered set or under overflow and exactly once, placement rule for the first L-1 sets checked on the cumulative reader with may/must windows, dropped streams report nothing, every view stream receives every measurement exactly once; asynchronous instruments under a limit report the observed values after the redirect-to-overflow rule",
   ref="DESIGN.md §3 C12",
   note="schedule-dependent content only: the limiter's check-then-insert under concurrent recorders and collections; the full input space of views/filters is not enumerated"),
 "C10": dict(engine="spanlin",
   text="seeded search over interleavings of End/SetAttributes/AddEvent/AddLink/SetStatus/SetName/RecordError/IsRecording/child Start on shared spans, with Go execution tracing really on and off; recorded invoke/return histories are checked for linearizability with porcupine against a sequential span model, plus direct checks (exactly one OnEnd per processor, immutable snapshot, single end time, not recording after End, no panic/deadlock), plus the happens-before data-race oracle of the race-detector build",
   ref="DESIGN.md §3 C10",
   note="sequentially consistent interleavings at statement granularity (read-modify-write statements on shared memory are additionally split); the model covers default span limits. A quarter of the workers run a race-detector build of the same engine in which the simulator's own synchronisation is hidden from the detector, so that accesses the schedule merely serialised are reported as the data race they are (DESIGN.md §2.11); the detector's verdict on one schedule can be hidden by runtime-made happens-before edges (sync.Pool in race builds), so a data-race replay is repeated up to six times. Since waves 10-13 the workload also holds a provider Shutdown among the span operations (operations that had not returned by then are lax in the model), RecordError with an error value whose Error method panics, and End as the deferred call of a panicking function (entered as two operations: the exception event, then End)"),
 "C01": dict(engine="bsp",
   text="seeded search over schedules, time advances, configurations and exporter faults of the real batch span processor under a deterministic scheduler; history oracle for exactly-once, batch size, exporter exclusivity, flush visibility, drop accounting, export-after-shutdown and bounded liveness",
   ref="DESIGN.md §3 C01",
   note="sequentially consistent interleavings of instrumented sdk/trace code; the exporter is a stub; sampling, not enumeration; known findings C01-K1/K2 (nil-returning Shutdown/ForceFlush overlapping an unfinished Shutdown) are reported as KNOWN-FINDING. A quarter of the workers run a race-detector build of the same engine in which the simulator's own synchronisation is hidden from the detector: a data race between two accesses of the code under test is reported as a violation (DESIGN.md §2.11)"),
 "C06": dict(engine="logbatch",
   text="seeded search over schedules, time advances, queue/batch/buffer/interval/timeout configurations and exporter faults of the real log batch processor; history oracle for exactly-once, per-emitter order, batch size, Export exclusivity, flush visibility with overwrite accounting, record isolation from later mutation, export-after-shutdown and bounded liveness",
   ref="DESIGN.md §3 C06",
   note="sequentially consistent interleavings of instrumented sdk/log code; the exporter is a stub; sampling, not enumeration; known findings C06-K1/K2 are reported as KNOWN-FINDING. A quarter of the workers run a race-detector build of the same engine in which the simulator's own synchronisation is hidden from the detector: a data race between two accesses of the code under test is reported as a violation (DESIGN.md §2.11)"),
}

PENDING = []

m = {
 "version": 1,
 "setup_cmd": "./check build",
 "hooks": {
   "guard": "verifsim",
   "enable": "no source change in /repo: every check regenerates an instrumented copy of the packages under test from /repo's current working tree (simgen) and builds with `go1.26.8 test -c -tags verifsim -overlay <generated overlay.json>`",
   "baseline_off_cmd": "cd /repo && for m in $(cat /w/out/gomods.txt); do MF=$(cd /repo/$m && . /w/out/goenv.sh && gomodflag); (cd /repo/$m && go test $MF -json -vet=off -count=1 -timeout 25m ./...); done",
   "source_commits": [],
   "add_only": True,
 },
 "engines": [{"name": n, "path": "engines/"+n, "serves_properties": p, "kind_free_text": "deterministic simulation: "+k} for n,(p,k) in ENGINES.items()],
 "checks": [],
 "not_applicable": [],
 "notes": "see DESIGN.md; ./check selftest-determinism and selftest/mutants.sh are the simulator's own self-tests; the race-detector builds of bsp, logbatch, metricsim, spanlin, lifecycle, globalsim and promsim are linked with -ldflags=-checklinkname=0 (they enter synctest bubbles through the runtime entry point, DESIGN.md §2.11); the quick commands run a fixed number of seeds per worker slot rather than a fixed time, so the coverage numbers in evidence/<id>.json are the same on any machine and only the duration (26-33 s on the idle 16-core sandbox) varies; VERIF_BUDGET_SEC selects a timed run instead (DESIGN.md §2.12)",
}
for pid, c in sorted(CHECKS.items()):
    m["checks"].append({
      "property_id": pid,
      "quick_cmd": f"./check {pid} quick",
      "thorough_cmd": f"./check {pid} thorough",
      "evidence_file": f"evidence/{pid}.json",
      "replay_cmd_template": f"./check {pid} --replay {{path}}",
      "engine": c["engine"],
      "level_claimed": {"category": "exploration", "text": c["text"], "design_ref": c["ref"]},
      "level_note": c["note"],
      "technique": TECH,
    })
na = dict(NA)
for p in PENDING:
    if p not in CHECKS:
        na[p] = "claimed in DESIGN.md; its simulation engine is still under construction in this commit (not yet registered as a check)"
m["not_applicable"] = [{"property_id": k, "reason": v} for k, v in sorted(na.items())]
json.dump(m, open(os.path.join(root, "MANIFEST.json"), "w"), indent=1)
print("checks:", [c["property_id"] for c in m["checks"]], "n/a:", len(m["not_applicable"]))
