#!/bin/bash
# Confirms an independently written breaking change and records how the registered check reports it.
# usage: tools/seeded_verify.sh <prop> <worktree> <name>
#  - existing tests of the touched module pass with the change (demo set aside)
#  - the demo fails with the change and passes without it
#  - ./check <prop> quick on /repo with the change applied
# Writes /verif/seeded/<name>/{patch.diff,<demo>,SEEDED.md,meta.json}.
set -u
export VERIF_EVIDENCE_DIR=/verif/scratch/evidence-selftest
prop=$1; wt=$2; name=$3
export GOFLAGS=-mod=mod GOPROXY=off GOSUMDB=off
cd "$wt" || exit 2
patch="$wt/patch.diff"
[ -s "$patch" ] || { echo "no patch.diff"; exit 2; }
demos=$(git status --porcelain | awk '$1=="??" && $2 ~ /_test\.go$/ {print $2}')
[ -n "$demos" ] || { echo "no demo test file"; exit 2; }
changed=$(git diff --name-only | grep -v _test.go | head -1)
moddir=$(dirname "$changed"); while [ ! -f "$moddir/go.mod" ]; do moddir=$(dirname "$moddir"); done
out=/verif/seeded/$name; mkdir -p "$out"
cp "$patch" "$out/patch.diff"; [ -f SEEDED.md ] && cp SEEDED.md "$out/SEEDED.md"
for d in $demos; do cp "$d" "$out/$(basename $d)"; done
# 1. existing tests with the change
mkdir -p /tmp/seeded_aside.$$; for d in $demos; do mv "$d" /tmp/seeded_aside.$$/$(echo $d | tr / _); done
( cd "$moddir" && go build ./... && go test -count=1 ./... ) > "$out/existing_tests_with_change.log" 2>&1; existing=$?
for d in $demos; do mv /tmp/seeded_aside.$$/$(echo $d | tr / _) "$d"; done; rmdir /tmp/seeded_aside.$$
# 2. demo with the change
demo_with=0; demo_without=0
for d in $demos; do
  pkg=$(dirname "$d")
  tests=$(grep -ho '^func \(Test[A-Za-z0-9_]*\)' "$d" | sed 's/func //' | paste -sd'|')
  ( cd "$pkg" && go test -count=3 -run "^($tests)\$" . ) > "$out/demo_with_change.log" 2>&1 || demo_with=1
done
# 3. demo without the change
git apply -R "$patch" || { echo "cannot reverse patch"; exit 2; }
for d in $demos; do
  pkg=$(dirname "$d")
  tests=$(grep -ho '^func \(Test[A-Za-z0-9_]*\)' "$d" | sed 's/func //' | paste -sd'|')
  ( cd "$pkg" && go test -count=3 -run "^($tests)\$" . ) > "$out/demo_without_change.log" 2>&1 || demo_without=1
done
git apply "$patch"
# 4. the registered check
cd /verif
[ -n "$(git -C /repo status --porcelain)" ] && { echo "/repo not clean"; exit 2; }
git -C /repo apply "$patch" || { echo "patch does not apply to /repo"; exit 2; }
./check "$prop" quick > "$out/check_quick.log" 2>&1; rc=$?
git -C /repo checkout -- .
first=$(grep -A1 '^VIOLATION' "$out/check_quick.log" | grep 'class=' | head -1 | sed 's/^ *//' | cut -c1-300)
python3 - "$out" "$prop" "$name" "$existing" "$demo_with" "$demo_without" "$rc" "$first" "$changed" "$demos" <<'PY'
import json,sys
out,prop,name,existing,dw,dwo,rc,first,changed,demos=sys.argv[1:11]
meta={"property":prop,"name":name,"changed_file":changed,"demo_files":demos.split(),
 "existing_tests_pass_with_change": existing=="0",
 "demo_fails_with_change": dw=="1", "demo_passes_without_change": dwo=="0",
 "check_cmd":"./check %s quick (patch applied to /repo with git apply, reverted afterwards)"%prop,
 "check_exit":int(rc), "check_first_report": first,
 "what_it_needs":"see SEEDED.md (written by the author of the change)",
 "commands":"tools/seeded_verify.sh %s <worktree> %s"%(prop,name)}
json.dump(meta,open(out+"/meta.json","w"),indent=1)
print(json.dumps(meta,indent=1))
PY
