#!/bin/sh
# Sensitivity self-test: apply each deliberate property-breaking patch to /repo's working tree, run the
# property's quick check, expect exit 1, and restore the tree. Usage: selftest/mutants.sh C01 [dir]
# (dir defaults to selftest/mutants/<id>; seeded/<name>/patch.diff files are accepted too)
cd "$(dirname "$0")/.."
export VERIF_EVIDENCE_DIR=$(pwd)/scratch/evidence-selftest
prop=$1
dir=${2:-selftest/mutants/$prop}
[ -n "$(git -C /repo status --porcelain)" ] && { echo "/repo working tree is not clean" >&2; exit 2; }
trap 'git -C /repo checkout -- . ' EXIT INT TERM
ok=0; miss=0
for d in "$dir"/*.diff; do
  [ -f "$d" ] || continue
  git -C /repo apply "$(realpath "$d")" || { echo "$d: does not apply"; continue; }
  out=$(./check "$prop" quick 2>&1); rc=$?
  git -C /repo checkout -- .
  viol=$(echo "$out" | grep -c '^VIOLATION')
  if [ $rc -eq 1 ] && [ "$viol" -gt 0 ]; then ok=$((ok+1)); echo "CAUGHT  $d: $(echo "$out" | grep -A1 '^VIOLATION' | grep class= | head -1 | cut -c1-200)"
  else miss=$((miss+1)); echo "MISSED  $d (rc=$rc): $(echo "$out" | tail -2 | cut -c1-300)"; fi
done
echo "caught=$ok missed=$miss"
