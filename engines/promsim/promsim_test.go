// Engine promsim: property C18, schedule-dependent clauses only (concurrent scrapes and measurements
// through the Prometheus exporter never crash, Gather succeeds, exposed values are faithful).
package promsim

import (
	"context"
	"fmt"
	"github.com/prometheus/common/model"
	"go.opentelemetry.io/otel/sdk/metric/metricdata"
	"math"
	"sort"
	"strings"
	"testing"
	"time"

	promclient "github.com/prometheus/client_golang/prometheus"
	dto "github.com/prometheus/client_model/go"

	"go.opentelemetry.io/otel"
	"go.opentelemetry.io/otel/attribute"
	otelprom "go.opentelemetry.io/otel/exporters/prometheus"
	"go.opentelemetry.io/otel/metric"
	sdkmetric "go.opentelemetry.io/otel/sdk/metric"
	"go.opentelemetry.io/otel/sdk/resource"

	"verif/simdrv"
	"verif/simrt"
)

const prop = "C18"

type engine struct{}

//go:norace
func (engine) Name() string { return "promsim" }

// RaceProps: the properties that demand race freedom; judged by the race-detector build of this engine.
//
//go:norace
func (engine) RaceProps() []string { return []string{"C18"} }

//go:norace
func TestWorker(t *testing.T) { simdrv.Worker(t, engine{}) }

// instrument names and units: a fixed list that includes the unit-word and "total" edge cases (the
// translation rules themselves are a pure function of the description and are not decided here).
var names = []struct{ name, unit string }{
	{"requests", "1"}, {"requests_total", ""}, {"total", ""}, {"net.packets.ipv6", "{packet}"}, {"http.server.duration", "ms"}, {"seconds", "s"},
	{"latency_seconds", "s"}, {"bytes_total", "By"}, {"foo.bar_baz", "{item}"}, {"Mixed.Case", "KiBy"}, {"ratio", "1"},
	{"queue-depth", ""}, {"cpu.time", "s"}, {"disk.io", "By/s"}, {"a_total_b", "ms"}, {"percent", "%"},
	{"milliseconds_total", "ms"}, {"x", "d"}, {"events", "{event}"}, {"temperature", "Cel"}, {"total_total", ""},
	{"duration_ms", "ms"}, {"size.bytes", "By"}, {"rate", "1/s"}, {"_leading", ""},
	// names that end in a digit, two of them differing in that digit only (five places apart, so that one run
	// can hold both; after seeded change C18-i)
	{"net.packets.ipv4", "{packet}"}, {"requests.v2", ""},
}

var instKinds = []string{"counter_i", "counter_f", "updown_i", "gauge_i", "hist_i", "exphist_f"}

// alnumSubseq reports whether the letters and digits of name occur, in order, in fam.
func alnumSubseq(name, fam string) bool {
	j := 0
	for i := 0; i < len(name); i++ {
		c := name[i]
		if !(c >= 'a' && c <= 'z' || c >= '0' && c <= '9') {
			continue
		}
		for j < len(fam) && fam[j] != c {
			j++
		}
		if j == len(fam) {
			return false
		}
		j++
	}
	return true
}

type inst struct {
	idx      int
	kind     string
	name     string
	unit     string
	scope    int
	desc     string
	twinOf   int    // >= 0: same name and kind as that instrument, other scope, different description
	split    bool   // measurements go to two attribute sets (inst=iN and inst=iNb): two series of one family
	created  uint64 // stamp at which creation returned
	nextBit  int
	ci       metric.Int64Counter
	cf       metric.Float64Counter
	ui       metric.Int64UpDownCounter
	gi       metric.Int64Gauge
	hi       metric.Int64Histogram
	he       metric.Float64Histogram // aggregated as a base-2 exponential histogram through a view
	lastGaug int64
}

type measOp struct {
	in       *inst
	sub      string // "" or "b": which of the instrument's attribute sets
	bit      int
	inv, ret uint64
	expo     int // exponential histogram: +1 positive, -1 negative, 0 zero value
}

// nativeHist is an exposed native (exponential) histogram, spans and deltas decoded to absolute bucket indices.
type nativeHist struct {
	schema   int32
	zero     uint64
	pos, neg map[int]int64
}

type scrape struct {
	task     string
	inv, ret uint64
	err      error
	// per instrument label "inst" value -> observed
	vals         map[string]float64
	counts       map[string]uint64
	kinds        map[string]string
	badH         []string
	bucks        map[string]map[float64]uint64 // histogram: upper bound -> cumulative count
	target       int
	scopes       int
	targetLabels []string
	native       map[string]*nativeHist
	family       map[string]string // series id -> name of the metric family it is exposed in
}

type safeCollector struct {
	inner promclient.Collector
	w     *world
}

//go:norace
func (s *safeCollector) Describe(ch chan<- *promclient.Desc) { s.inner.Describe(ch) }

//go:norace
func (s *safeCollector) Collect(ch chan<- promclient.Metric) {
	defer func() {
		if p := recover(); p != nil {
			s.w.panics = append(s.w.panics, fmt.Sprint(p))
		}
	}()
	s.inner.Collect(ch)
}

type wrapRegisterer struct {
	reg *promclient.Registry
	w   *world
}

//go:norace
func (r wrapRegisterer) Register(c promclient.Collector) error {
	return r.reg.Register(&safeCollector{inner: c, w: r.w})
}

//go:norace
func (r wrapRegisterer) MustRegister(cs ...promclient.Collector) {
	for _, c := range cs {
		if err := r.Register(c); err != nil {
			panic(err)
		}
	}
}

//go:norace
func (r wrapRegisterer) Unregister(c promclient.Collector) bool { return false }

type world struct {
	r                *simdrv.Run
	sim              *simrt.Sim
	insts            []*inst
	meas             []*measOp
	scrapes          []*scrape
	panics           []string
	handled          []string
	wireInv, wireRet uint64
	shutInv          uint64 // stamp at which the provider's Shutdown was invoked (0: never)
	refData          metricdata.ResourceMetrics // what a plain reader on the same provider collects at quiescence
	refErr           error
}

type planOp struct {
	kind  string // create | add | sleep
	inst  int
	sleep time.Duration
}

//go:norace
func (engine) Body(r *simdrv.Run) {
	w := &world{r: r}
	nRec := 1 + r.Cfg(3)
	nScr := 1 + r.Cfg(3)
	nInst := 2 + r.Cfg(6)
	// instruments (created lazily by the recorder that first touches them)
	perm := r.Cfg(len(names))
	for i := 0; i < nInst; i++ {
		nm := names[(perm+i*5)%len(names)]
		w.insts = append(w.insts, &inst{idx: i, kind: instKinds[r.Cfg(len(instKinds))], name: nm.name, unit: nm.unit, scope: r.Cfg(2), desc: "d", twinOf: -1})
	}
	// make names unique (two instruments with one name and different kinds are a configuration error)
	// ... and neither are two instruments whose names differ only by a trailing "_total" or by
	// separator characters: they translate to one Prometheus family and the exporter (rightly) drops
	// the second one as a type conflict.
	stem := func(n string) string {
		n = strings.ToLower(n)
		n = strings.Map(func(c rune) rune {
			if c >= 'a' && c <= 'z' || c >= '0' && c <= '9' {
				return c
			}
			return '_'
		}, n)
		return strings.TrimSuffix(strings.TrimSuffix(n, "_total"), "total")
	}
	seen := map[string]bool{}
	for _, in := range w.insts {
		for seen[stem(in.name)] {
			in.name += "_x"
		}
		seen[stem(in.name)] = true
	}
	// twins: the same instrument name, kind and unit in the *other* scope with a different description.
	// The exporter must keep one HELP text per family (first seen wins) whatever the scrape order.
	if r.Cfg(2) == 1 {
		nTw := 1 + r.Cfg(2)
		for k := 0; k < nTw && k < nInst; k++ {
			o := w.insts[k]
			w.insts = append(w.insts, &inst{idx: len(w.insts), kind: o.kind, name: o.name, unit: o.unit, scope: 1 - o.scope, desc: "other description", twinOf: o.idx})
		}
		nInst = len(w.insts)
	}
	recPlans := make([][]planOp, nRec)
	for t := range recPlans {
		n := 3 + r.Cfg(8)
		for i := 0; i < n; i++ {
			op := planOp{kind: "add", inst: r.Cfg(nInst)}
			if r.Cfg(6) == 0 {
				op.sleep = time.Millisecond
			}
			recPlans[t] = append(recPlans[t], op)
		}
	}
	scrPlans := make([]int, nScr)
	for t := range scrPlans {
		scrPlans[t] = 1 + r.Cfg(4)
	}
	optBits := r.Cfg(64)
	var popts []otelprom.Option
	optDesc := []string{}
	if optBits&1 != 0 {
		popts = append(popts, otelprom.WithoutUnits())
		optDesc = append(optDesc, "without-units")
	}
	if optBits&2 != 0 {
		popts = append(popts, otelprom.WithoutCounterSuffixes())
		optDesc = append(optDesc, "without-counter-suffixes")
	}
	if optBits&4 != 0 {
		popts = append(popts, otelprom.WithNamespace("ns"))
		optDesc = append(optDesc, "namespace")
	}
	noScope := optBits&8 != 0
	if noScope {
		popts = append(popts, otelprom.WithoutScopeInfo())
		optDesc = append(optDesc, "without-scope-info")
	}
	noTarget := optBits&16 != 0
	if noTarget {
		popts = append(popts, otelprom.WithoutTargetInfo())
		optDesc = append(optDesc, "without-target-info")
	}
	if optBits&32 != 0 {
		popts = append(popts, otelprom.WithResourceAsConstantLabels(attribute.NewAllowKeysFilter("service.name", "deployment")))
		optDesc = append(optDesc, "resource-as-constant-labels")
	}
	// The legacy name validation scheme of prometheus/common (a process-wide setting, put back every run)
	// makes the exporter sanitise attribute keys; a third of the instruments then record with three constant
	// attributes of which two collide after sanitisation and the third sorts between them: they must be
	// merged into one label, not dropped with the data point (after seeded change C18-g).
	legacy := r.Cfg(3) == 0
	model.NameValidationScheme = model.UTF8Validation //nolint:staticcheck // the exporter reads this global
	if legacy {
		model.NameValidationScheme = model.LegacyValidation //nolint:staticcheck
		optDesc = append(optDesc, "legacy-name-validation")
	}
	lateWire := r.Cfg(4) == 0
	wireSleep := []time.Duration{0, time.Millisecond}[r.Cfg(2)]
	if lateWire {
		optDesc = append(optDesc, fmt.Sprintf("provider-created-late(after %v)", wireSleep))
	}
	// In one run in six (of those that have their provider from the start) a task shuts the provider down
	// after a drawn number of its turns, while scrapes and measurements go on: scrapes that had not returned
	// by then are only required not to panic and not to make Gather fail (after seeded change C18-l, which
	// empties the collector's family cache when a scrape finds its reader shut down - under a scrape that is
	// still walking the data it collected before).
	withShutdown := !lateWire && r.Cfg(6) == 0
	shutAfter := r.Cfg(12)
	if withShutdown {
		optDesc = append(optDesc, fmt.Sprintf("provider-shutdown(after %d turns)", shutAfter))
	}
	r.Res.Config["options"] = strings.Join(optDesc, ",")
	var idesc []string
	for _, in := range w.insts {
		in.split = r.Cfg(3) == 0
		idesc = append(idesc, fmt.Sprintf("%s:%s[%s]@scope%d(twin of %d, split %v)", in.kind, in.name, in.unit, in.scope, in.twinOf, in.split))
	}
	r.Res.Config["instruments"] = strings.Join(idesc, " ")
	r.Res.Config["recorders"] = fmt.Sprintf("%+v", recPlans)
	r.Res.Config["scrapers"] = fmt.Sprint(scrPlans)

	cfg := r.DrawSched([]time.Duration{time.Nanosecond, time.Millisecond}, time.Hour, 30000)
	cfg.Foreign = true // client_golang's Gather workers call the exporter's Collect: schedule them too
	sim := r.Start(cfg)
	w.sim = sim
	otel.SetErrorHandler(otel.ErrorHandlerFunc(func(err error) { w.handled = append(w.handled, err.Error()) }))

	reg := promclient.NewRegistry()
	exp, err := otelprom.New(append(popts, otelprom.WithRegisterer(wrapRegisterer{reg: reg, w: w}))...)
	if err != nil {
		r.Res.Outcome = "harness-panic"
		r.Res.Detail = "prometheus.New: " + err.Error()
		sim.Finish()
		return
	}
	// The exporter is handed to a MeterProvider either before anything else happens or, in a quarter of
	// the runs, by a task of its own while scrapes are already arriving (the /metrics endpoint is up
	// before the SDK is wired): such scrapes must be empty and must not leave anything behind.
	var mp *sdkmetric.MeterProvider
	ref := sdkmetric.NewManualReader() // reference for the differential check of exponential histograms at quiescence
	wire := func() {
		w.wireInv = sim.Stamp()
		var views []sdkmetric.View
		for _, in := range w.insts {
			if in.kind == "exphist_f" {
				views = append(views, sdkmetric.NewView(sdkmetric.Instrument{Name: in.name, Kind: sdkmetric.InstrumentKindHistogram},
					sdkmetric.Stream{Aggregation: sdkmetric.AggregationBase2ExponentialHistogram{MaxSize: 20, MaxScale: 3}}))
			}
		}
		p := sdkmetric.NewMeterProvider(sdkmetric.WithReader(exp), sdkmetric.WithReader(ref), sdkmetric.WithView(views...),
			sdkmetric.WithResource(resource.NewSchemaless(attribute.String("service.name", "sim"), attribute.String("deployment", "test"), attribute.String("unrelated", "x"))))
		w.wireRet = sim.Stamp()
		mp = p
		simrt.HarnessRelease()
	}
	if lateWire {
		sim.Spawn("wirer", func() {
			if wireSleep > 0 {
				simrt.Sleep(wireSleep, simdrv.PtSleep)
			}
			simrt.Yield(simdrv.PtOp)
			wire()
			r.Log("%d wired (invoked %d)", w.wireRet, w.wireInv)
		})
	} else {
		wire()
	}
	create := func(in *inst) {
		m := mp.Meter(fmt.Sprintf("scope%d", in.scope), metric.WithInstrumentationVersion("v1"))
		var e error
		switch in.kind {
		case "counter_i":
			in.ci, e = m.Int64Counter(in.name, metric.WithUnit(in.unit), metric.WithDescription(in.desc))
		case "counter_f":
			in.cf, e = m.Float64Counter(in.name, metric.WithUnit(in.unit), metric.WithDescription(in.desc))
		case "updown_i":
			in.ui, e = m.Int64UpDownCounter(in.name, metric.WithUnit(in.unit), metric.WithDescription(in.desc))
		case "gauge_i":
			in.gi, e = m.Int64Gauge(in.name, metric.WithUnit(in.unit), metric.WithDescription(in.desc))
		case "hist_i":
			in.hi, e = m.Int64Histogram(in.name, metric.WithUnit(in.unit), metric.WithDescription(in.desc), metric.WithExplicitBucketBoundaries(1, 4, 16, 256, 65536))
		case "exphist_f":
			in.he, e = m.Float64Histogram(in.name, metric.WithUnit(in.unit), metric.WithDescription(in.desc))
		}
		if e != nil {
			r.Res.Outcome = "harness-panic"
			r.Res.Detail = "instrument creation: " + e.Error()
		}
		in.created = sim.Stamp()
	}
	for t, plan := range recPlans {
		plan := plan
		name := fmt.Sprintf("rec%d", t)
		sim.Spawn(name, func() {
			for _, op := range plan {
				if op.sleep > 0 {
					simrt.Sleep(op.sleep, simdrv.PtSleep)
				}
				simrt.Yield(simdrv.PtOp)
				for mp == nil {
					simrt.Sleep(time.Millisecond, simdrv.PtSleep)
				}
				simrt.HarnessAcquire() // the provider was published by the wirer task (race build: an ordinary hand-over, not a race)
				in := w.insts[op.inst]
				if in.created == 0 {
					in.created = 1 // claimed; creation below
					create(in)
					r.Log("%d create %s %s task=%s", in.created, in.kind, in.name, name)
				}
				if in.nextBit >= 30 || (in.ci == nil && in.cf == nil && in.ui == nil && in.gi == nil && in.hi == nil && in.he == nil) {
					continue
				}
				sub := ""
				if in.split && sim.Draw(2) == 1 {
					sub = "b"
				}
				mo := &measOp{in: in, sub: sub, bit: in.nextBit, inv: sim.Stamp()}
				in.nextBit++
				w.meas = append(w.meas, mo)
				v := int64(1) << mo.bit
				kvs := []attribute.KeyValue{attribute.String("inst", fmt.Sprintf("i%d%s", in.idx, sub))}
				if in.idx%3 == 1 {
					kvs = append(kvs, attribute.String("http.method", "GET"), attribute.String("http.route", "/x"), attribute.String("http_method", "POST"))
				}
				attrs := metric.WithAttributes(kvs...)
				ctx := context.Background()
				switch in.kind {
				case "counter_i":
					in.ci.Add(ctx, v, attrs)
				case "counter_f":
					in.cf.Add(ctx, float64(v), attrs)
				case "updown_i":
					in.ui.Add(ctx, v, attrs)
				case "gauge_i":
					in.gi.Record(ctx, v, attrs)
				case "hist_i":
					in.hi.Record(ctx, v, attrs)
				case "exphist_f":
					// positive, negative and zero values, spread over many powers of two
					mo.expo = []int{1, 1, -1, 0}[sim.Draw(4)]
					in.he.Record(ctx, float64(mo.expo)*float64(v)*1.25, attrs)
				}
				mo.ret = sim.Stamp()
				r.Log("%d add i%d%s bit=%d task=%s (invoked %d)", mo.ret, in.idx, sub, mo.bit, name, mo.inv)
				r.Res.Ops++
			}
		})
	}
	doScrape := func(task string) {
		sc := &scrape{task: task, inv: sim.Stamp(), vals: map[string]float64{}, counts: map[string]uint64{}, kinds: map[string]string{}, bucks: map[string]map[float64]uint64{}, native: map[string]*nativeHist{}, family: map[string]string{}}
		w.scrapes = append(w.scrapes, sc)
		mfs, err := reg.Gather()
		simrt.Woke(simdrv.PtOp)
		sc.err = err
		sc.ret = sim.Stamp()
		for _, mf := range mfs {
			if mf.GetName() == "target_info" {
				sc.target += len(mf.Metric)
				for _, m := range mf.Metric {
					var ls []string
					for _, l := range m.Label {
						ls = append(ls, strings.ReplaceAll(l.GetName(), ".", "_")+"="+l.GetValue()) // name escaping is not this check's business
					}
					sort.Strings(ls)
					sc.targetLabels = append(sc.targetLabels, strings.Join(ls, ","))
				}
				continue
			}
			if mf.GetName() == "otel_scope_info" {
				sc.scopes += len(mf.Metric)
				continue
			}
			for _, m := range mf.Metric {
				id := ""
				for _, l := range m.Label {
					if l.GetName() == "inst" {
						id = l.GetValue()
					}
				}
				if id == "" {
					continue
				}
				sc.family[id] = mf.GetName()
				if _, dup := sc.kinds[id]; dup {
					sc.badH = append(sc.badH, fmt.Sprintf("instrument %s appears in more than one series (family %s)", id, mf.GetName()))
				}
				switch mf.GetType() {
				case dto.MetricType_COUNTER:
					sc.kinds[id], sc.vals[id] = "counter", m.Counter.GetValue()
				case dto.MetricType_GAUGE:
					sc.kinds[id], sc.vals[id] = "gauge", m.Gauge.GetValue()
				case dto.MetricType_HISTOGRAM:
					h := m.Histogram
					sc.kinds[id], sc.vals[id], sc.counts[id] = "histogram", h.GetSampleSum(), h.GetSampleCount()
					if h.Schema != nil {
						nh := &nativeHist{schema: h.GetSchema(), zero: h.GetZeroCount(), pos: map[int]int64{}, neg: map[int]int64{}}
						decode := func(spans []*dto.BucketSpan, deltas []int64, into map[int]int64) {
							idx, k := 0, 0
							var c int64
							for si, sp := range spans {
								if si == 0 {
									idx = int(sp.GetOffset())
								} else {
									idx += int(sp.GetOffset())
								}
								for j := 0; j < int(sp.GetLength()) && k < len(deltas); j++ {
									c += deltas[k]
									k++
									if c != 0 {
										into[idx] = c
									}
									idx++
								}
							}
						}
						decode(h.PositiveSpan, h.PositiveDelta, nh.pos)
						decode(h.NegativeSpan, h.NegativeDelta, nh.neg)
						sc.native[id] = nh
					}
					sc.bucks[id] = map[float64]uint64{}
					for _, b := range h.Bucket {
						sc.bucks[id][b.GetUpperBound()] = b.GetCumulativeCount()
					}
					var prev uint64
					for _, b := range h.Bucket {
						if b.GetCumulativeCount() < prev {
							sc.badH = append(sc.badH, fmt.Sprintf("%s: cumulative bucket counts decrease", id))
						}
						prev = b.GetCumulativeCount()
					}
					if prev > h.GetSampleCount() {
						sc.badH = append(sc.badH, fmt.Sprintf("%s: bucket count %d exceeds sample count %d", id, prev, h.GetSampleCount()))
					}
				}
			}
		}
		r.Log("%d scrape task=%s err=%v vals=%v counts=%v target=%d scopes=%d (invoked %d)", sc.ret, task, err, sc.vals, sc.counts, sc.target, sc.scopes, sc.inv)
	}
	for t, n := range scrPlans {
		n := n
		name := fmt.Sprintf("scr%d", t)
		sim.Spawn(name, func() {
			for i := 0; i < n; i++ {
				simrt.Yield(simdrv.PtOp)
				doScrape(name)
				r.Res.Ops++
			}
		})
	}
	if withShutdown {
		sim.Spawn("shutter", func() {
			for i := 0; i < shutAfter; i++ {
				simrt.Yield(simdrv.PtOp)
			}
			w.shutInv = sim.Stamp()
			r.Fault("provider-shutdown-during-scrapes")
			err := mp.Shutdown(context.Background())
			r.Log("%d provider-shutdown err=%v (invoked %d)", sim.Stamp(), err, w.shutInv)
		})
	}
	sim.Spawn("closer", func() {
		sim.JoinOthers(simdrv.PtOp)
		doScrape("closer")
		if mp != nil {
			w.refErr = ref.Collect(context.Background(), &w.refData)
		}
	})
	out := sim.Run()
	r.Finish(out)
	r.Res.NonTrivial = sim.Switches > 0 && len(sim.TaskNames()) >= 2
	if r.Res.Outcome == "harness-panic" {
		return
	}
	switch out.Kind {
	case simrt.Budget:
		return
	case simrt.Fatal:
		r.Violate(prop, "panic", "panic", "%s", out.Detail)
		return
	case simrt.Deadlock:
		r.Violate(prop, "deadlock", "deadlock", "%s", out.Detail)
		return
	case simrt.Hang:
		r.Violate(prop, "hang", "hang", "a scrape or measurement never returned: %s", out.Detail)
		return
	}
	// reach accounting
	for i, a := range w.scrapes {
		for j, b := range w.scrapes {
			if i < j && a.inv < b.ret && b.inv < a.ret {
				r.Fault("concurrent-scrapes")
			}
		}
		for _, mo := range w.meas {
			if mo.inv < a.ret && mo.ret > a.inv {
				r.Fault("measurement-during-scrape")
			}
		}
		for _, in := range w.insts {
			if in.created > a.inv && in.created < a.ret {
				r.Fault("instrument-created-during-scrape")
			}
		}
	}
	// ---- oracle ----
	for _, p := range w.panics {
		r.Violate(prop, "panic", "panic-in-collect", "the exporter's Collect panicked inside Gather: %s", p)
	}
	var lastBy = map[string]*scrape{}
	// the series an instrument can expose: one per attribute set it records with
	type serKey struct {
		in  *inst
		sub string
	}
	var series []serKey
	for _, in := range w.insts {
		series = append(series, serKey{in, ""})
		if in.split {
			series = append(series, serKey{in, "b"})
		}
	}
	for _, sc := range w.scrapes {
		if sc.ret == 0 {
			continue
		}
		if sc.err != nil {
			r.Violate(prop, "gather-error", "gather-error", "Gather (task %s, %d..%d) failed: %v", sc.task, sc.inv, sc.ret, sc.err)
			continue
		}
		if w.shutInv != 0 && sc.ret > w.shutInv {
			continue // the provider was being, or had been, shut down: what such a scrape holds is not specified here
		}
		for _, b := range sc.badH {
			r.Violate(prop, "inconsistent-series", "inconsistent-series", "scrape %d..%d: %s", sc.inv, sc.ret, b)
		}
		anyData := len(sc.vals) > 0
		for _, tl := range sc.targetLabels {
			if want := "deployment=test,service_name=sim,unrelated=x"; tl != want {
				r.Violate(prop, "target-info", "target-info/labels", "scrape %d..%d exposes target_info{%s}, the provider's resource is {%s}", sc.inv, sc.ret, tl, want)
			}
		}
		if sc.ret < w.wireInv && (anyData || sc.target != 0 || sc.scopes != 0) {
			r.Violate(prop, "series-before-registration", "series-before-registration", "scrape %d..%d ended before the exporter was handed to a MeterProvider (at %d) but exposes vals=%v target_info=%d scope_info=%d", sc.inv, sc.ret, w.wireInv, sc.vals, sc.target, sc.scopes)
		}
		if lateWire && sc.ret < w.wireInv {
			r.Fault("scrape-before-provider")
		}
		if lateWire && sc.inv < w.wireRet && sc.ret > w.wireInv {
			r.Fault("scrape-during-provider-creation")
		}
		if !noTarget && anyData && sc.target != 1 {
			r.Violate(prop, "target-info", "target-info", "scrape %d..%d exposes %d target_info series, want 1", sc.inv, sc.ret, sc.target)
		}
		if noTarget && sc.target != 0 {
			r.Violate(prop, "target-info", "target-info", "scrape %d..%d exposes target_info although it is disabled", sc.inv, sc.ret)
		}
		if noScope && sc.scopes != 0 {
			r.Violate(prop, "scope-info", "scope-info", "scrape %d..%d exposes otel_scope_info although it is disabled", sc.inv, sc.ret)
		}
		if !noScope && anyData {
			scopesWithData := map[int]bool{}
			for _, in := range w.insts {
				_, ok := sc.vals[fmt.Sprintf("i%d", in.idx)]
				_, okb := sc.vals[fmt.Sprintf("i%db", in.idx)]
				if ok || okb {
					scopesWithData[in.scope] = true
				}
			}
			if sc.scopes < len(scopesWithData) {
				r.Violate(prop, "scope-info", "scope-info", "scrape %d..%d exposes %d otel_scope_info series for %d scopes with data", sc.inv, sc.ret, sc.scopes, len(scopesWithData))
			}
		}
		for _, ser := range series {
			in, id := ser.in, fmt.Sprintf("i%d%s", ser.in.idx, ser.sub)
			var must, may uint64
			var lastMust, anyMay bool
			for _, mo := range w.meas {
				if mo.in != in || mo.sub != ser.sub {
					continue
				}
				if mo.ret != 0 && mo.ret < sc.inv {
					must |= 1 << uint(mo.bit)
					lastMust = true
				}
				if mo.inv < sc.ret {
					may |= 1 << uint(mo.bit)
					anyMay = true
				}
			}
			v, present := sc.vals[id]
			if !present {
				if lastMust {
					r.Violate(prop, "missing-series", "missing-series/"+in.kind, "scrape %d..%d has no series for %s %q although measurements completed before it", sc.inv, sc.ret, in.kind, in.name)
				}
				continue
			}
			if !anyMay {
				r.Violate(prop, "phantom-series", "phantom-series", "scrape %d..%d exposes %s %q before any measurement was made", sc.inv, sc.ret, in.kind, in.name)
				continue
			}
			// "unit and total suffixes are neither duplicated when the instrument name already carries them":
			// the family name repeats a word back to back only where the instrument's own name does
			if fam := sc.family[id]; dupWords(fam) > dupWords(in.name) {
				r.Violate(prop, "suffix-duplicated", "suffix-duplicated", "%s %q (unit %q) is exposed as family %q: a suffix word appears twice in a row", in.kind, in.name, in.unit, fam)
			}
			// ... and no letter or digit of the instrument's name is lost on the way (a trailing "total" apart,
			// which the counter suffix rules own): they appear, in order, in the family name
			if fam := sc.family[id]; !alnumSubseq(strings.TrimSuffix(strings.ToLower(in.name), "total"), strings.ToLower(fam)) {
				r.Violate(prop, "name-truncated", "name-truncated", "%s %q (unit %q) is exposed as family %q, which has lost characters of the name", in.kind, in.name, in.unit, fam)
			}
			wantKind := map[string]string{"counter_i": "counter", "counter_f": "counter", "updown_i": "gauge", "gauge_i": "gauge", "hist_i": "histogram", "exphist_f": "histogram"}[in.kind]
			if sc.kinds[id] != wantKind {
				r.Violate(prop, "wrong-type", "wrong-type", "%s %q is exposed as a %s", in.kind, in.name, sc.kinds[id])
				continue
			}
			if in.kind == "exphist_f" {
				// count within the may/must window, buckets consistent with the count; exact structure is
				// compared with a plain reader on the same provider at quiescence (below)
				nh := sc.native[id]
				if nh == nil {
					r.Violate(prop, "wrong-type", "wrong-type/not-native", "exponential histogram %q is not exposed as a native histogram", in.name)
					continue
				}
				if c := sc.counts[id]; c < uint64(popcount(must)) || c > uint64(popcount(may)) {
					r.Violate(prop, "unfaithful-value", "unfaithful-value/exphist-count", "exponential histogram %q: scrape %d..%d count %d, %d measurements completed before it and %d were invoked before it returned", in.name, sc.inv, sc.ret, c, popcount(must), popcount(may))
				}
				var tot int64
				for _, c := range nh.pos {
					tot += c
				}
				for _, c := range nh.neg {
					tot += c
				}
				if uint64(tot)+nh.zero != sc.counts[id] {
					r.Violate(prop, "inconsistent-series", "inconsistent-series/exphist", "exponential histogram %q: buckets hold %d + zero count %d, count is %d", in.name, tot, nh.zero, sc.counts[id])
				}
				continue
			}
			if v != math.Trunc(v) || v < 0 {
				r.Violate(prop, "unfaithful-value", "unfaithful-value/"+in.kind, "%s %q: value %v is not a sum of recorded measurements", in.kind, in.name, v)
				continue
			}
			bits := uint64(v)
			if in.kind == "gauge_i" {
				// last value: one of the measurements, not older than the last one that completed before
				if bits&(bits-1) != 0 || bits&may == 0 {
					r.Violate(prop, "unfaithful-value", "unfaithful-value/gauge", "gauge %q: value %v is not a recorded value", in.name, v)
				}
				continue
			}
			if bits&^may != 0 {
				r.Violate(prop, "unfaithful-value", "unfaithful-value/"+in.kind, "%s %q: scrape %d..%d value %v contains increments never made (or made after it returned)", in.kind, in.name, sc.inv, sc.ret, v)
			}
			if must&^bits != 0 {
				r.Violate(prop, "unfaithful-value", "stale-value/"+in.kind, "%s %q: scrape %d..%d value %v misses increments completed before it was invoked (must %b)", in.kind, in.name, sc.inv, sc.ret, v, must)
			}
			if in.kind == "hist_i" {
				if n := popcount(bits); uint64(n) != sc.counts[id] {
					r.Violate(prop, "unfaithful-value", "unfaithful-value/hist-count", "histogram %q: sum %v names %d measurements but count is %d", in.name, v, n, sc.counts[id])
				}
				// every measurement is 2^bit: the cumulative count of the bucket with upper bound ub is the
				// number of decoded measurements <= ub
				for ub, got := range sc.bucks[id] {
					var want uint64
					for b := 0; b < 40; b++ {
						if bits&(1<<uint(b)) != 0 && float64(uint64(1)<<uint(b)) <= ub {
							want++
						}
					}
					if got != want {
						r.Violate(prop, "unfaithful-value", "unfaithful-value/hist-bucket", "histogram %q: bucket le=%v holds %d, the measurements named by the sum %v put %d there", in.name, ub, got, v, want)
					}
				}
			}
			if prev := lastBy[sc.task]; prev != nil && in.kind != "updown_i" || prev != nil && in.kind == "updown_i" {
				if pv, ok := prev.vals[id]; ok && v < pv {
					r.Violate(prop, "value-decreased", "value-decreased/"+in.kind, "%s %q went from %v to %v between two successive scrapes of %s", in.kind, in.name, pv, v, sc.task)
				}
			}
		}
		lastBy[sc.task] = sc
	}
	// exponential histograms at quiescence: the exposed native histogram equals what a plain reader on the
	// same provider collects (Prometheus indexes buckets by their upper, OpenTelemetry by their lower
	// boundary: index + 1)
	if last := w.scrapes[len(w.scrapes)-1]; last.task == "closer" && last.ret != 0 && last.err == nil && w.refErr == nil {
		for _, sm := range w.refData.ScopeMetrics {
			for _, m := range sm.Metrics {
				eh, ok := m.Data.(metricdata.ExponentialHistogram[float64])
				if !ok {
					continue
				}
				for _, dp := range eh.DataPoints {
					idv, _ := dp.Attributes.Value("inst")
					id := idv.AsString()
					nh := last.native[id]
					if nh == nil {
						r.Violate(prop, "missing-series", "missing-series/exphist_f", "the final scrape has no native histogram for %s %q although the SDK holds %d measurements", id, m.Name, dp.Count)
						continue
					}
					want := func(b metricdata.ExponentialBucket) map[int]int64 {
						out := map[int]int64{}
						for j, c := range b.Counts {
							if c != 0 {
								out[int(b.Offset)+j+1] = int64(c)
							}
						}
						return out
					}
					wp, wn := want(dp.PositiveBucket), want(dp.NegativeBucket)
					if nh.schema != dp.Scale || nh.zero != dp.ZeroCount || last.counts[id] != dp.Count || last.vals[id] != dp.Sum || fmt.Sprint(nh.pos) != fmt.Sprint(wp) || fmt.Sprint(nh.neg) != fmt.Sprint(wn) {
						r.Violate(prop, "unfaithful-value", "unfaithful-value/exphist", "exponential histogram %s %q at quiescence: exposed schema %d count %d sum %v zero %d positive %v negative %v; the SDK's aggregation has scale %d count %d sum %v zero %d positive %v negative %v (bucket index + 1)",
							id, m.Name, nh.schema, last.counts[id], last.vals[id], nh.zero, nh.pos, nh.neg, dp.Scale, dp.Count, dp.Sum, dp.ZeroCount, wp, wn)
					}
					r.Probe("exphist-compared-at-quiescence")
				}
			}
		}
	}
	if w.shutInv != 0 {
		// a scrape that arrives after the provider's Shutdown reports exactly this, by design
		kept := w.handled[:0]
		for _, h := range w.handled {
			if !strings.Contains(h, "reader is shutdown") {
				kept = append(kept, h)
			}
		}
		w.handled = kept
	}
	if lateWire {
		// a scrape that arrives before the exporter has a provider reports exactly this, by design
		kept := w.handled[:0]
		for _, h := range w.handled {
			if !strings.Contains(h, "reader is not registered") {
				kept = append(kept, h)
			}
		}
		w.handled = kept
	}
	if len(w.handled) > 0 {
		sort.Strings(w.handled)
		r.Violate(prop, "exporter-error", "exporter-error", "the exporter reported errors for valid instruments: %v", w.handled)
	}
}

// dupWords counts the words of a metric name (split at '_' and '.') that repeat the word before them.
//
//go:norace
func dupWords(name string) int {
	ws := strings.FieldsFunc(name, func(c rune) bool { return c == '_' || c == '.' })
	n := 0
	for i := 1; i < len(ws); i++ {
		if ws[i] == ws[i-1] {
			n++
		}
	}
	return n
}

//go:norace
func popcount(x uint64) int {
	n := 0
	for ; x != 0; x &= x - 1 {
		n++
	}
	return n
}
