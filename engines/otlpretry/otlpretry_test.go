//go:build verifsim

//go:debug randautoseed=0
//go:debug randseednop=0

// Engine otlpretry: property C14 (OTLP export retries only retryable failures, honouring throttling
// and deadlines) for the six OTLP exporters, against a scripted in-process collector reached over an
// in-memory transport inside the bubble (real net/http client+server, real gRPC client+server).
package otlpretry

import (
	"bytes"
	"compress/gzip"
	"context"
	"crypto/sha256"
	"errors"
	"fmt"
	"io"
	"math/rand"
	"net"
	"net/http"
	"net/url"
	"sort"
	"strings"
	"sync"
	"testing"
	"time"

	collogspb "go.opentelemetry.io/proto/otlp/collector/logs/v1"
	colmetricpb "go.opentelemetry.io/proto/otlp/collector/metrics/v1"
	coltracepb "go.opentelemetry.io/proto/otlp/collector/trace/v1"
	"google.golang.org/genproto/googleapis/rpc/errdetails"
	"google.golang.org/grpc"
	"google.golang.org/grpc/codes"
	"google.golang.org/grpc/credentials/insecure"
	"google.golang.org/grpc/status"
	"google.golang.org/protobuf/proto"
	"google.golang.org/protobuf/types/known/durationpb"

	"go.opentelemetry.io/otel"
	"go.opentelemetry.io/otel/attribute"
	"go.opentelemetry.io/otel/exporters/otlp/otlplog/otlploggrpc"
	"go.opentelemetry.io/otel/exporters/otlp/otlplog/otlploghttp"
	"go.opentelemetry.io/otel/exporters/otlp/otlpmetric/otlpmetricgrpc"
	"go.opentelemetry.io/otel/exporters/otlp/otlpmetric/otlpmetrichttp"
	"go.opentelemetry.io/otel/exporters/otlp/otlptrace/otlptracegrpc"
	"go.opentelemetry.io/otel/exporters/otlp/otlptrace/otlptracehttp"
	"go.opentelemetry.io/otel/log"
	sdklog "go.opentelemetry.io/otel/sdk/log"
	"go.opentelemetry.io/otel/sdk/metric/metricdata"
	"go.opentelemetry.io/otel/sdk/resource"
	"go.opentelemetry.io/otel/sdk/trace/tracetest"

	"verif/simdrv"
	"verif/simrt"
)

const prop = "C14"

type engine struct{}

func (engine) Name() string { return "otlpretry" }

func TestWorker(t *testing.T) { simdrv.Worker(t, engine{}) }

// ---- in-memory transport ----

type tempErr struct{}

func (tempErr) Error() string   { return "simulated temporary dial error" }
func (tempErr) Timeout() bool   { return false }
func (tempErr) Temporary() bool { return true }

type pipeListener struct {
	ch   chan net.Conn
	done chan struct{}
	once sync.Once
}

func (l *pipeListener) Accept() (net.Conn, error) {
	select {
	case c := <-l.ch:
		return c, nil
	case <-l.done:
		return nil, net.ErrClosed
	}
}
func (l *pipeListener) Close() error   { l.once.Do(func() { close(l.done) }); return nil }
func (l *pipeListener) Addr() net.Addr { return &net.UnixAddr{Name: "sim"} }
func (l *pipeListener) connect(ctx context.Context) (net.Conn, error) {
	a, b := net.Pipe()
	select {
	case l.ch <- b:
		return a, nil
	case <-ctx.Done():
		return nil, ctx.Err()
	case <-l.done:
		return nil, net.ErrClosed
	}
}

// ---- script ----

type outcome struct {
	// HTTP
	status     int
	retryAfter int // seconds, -1: no header
	dialFail   bool
	// gRPC
	code      codes.Code
	retryInfo time.Duration // -1: none
	// both
	latency time.Duration
	partial bool
	chunked bool // HTTP: the partial-success body is streamed (no Content-Length)

	clientTimeout bool // derived: the per-attempt client timeout fired before the scripted response
}

func (o outcome) String() string {
	if o.clientTimeout {
		return "client-timeout"
	}
	if o.dialFail {
		return "dial-temporary-error"
	}
	s := ""
	if o.status != 0 {
		s = fmt.Sprintf("http%d", o.status)
		if o.retryAfter >= 0 {
			s += fmt.Sprintf("+RetryAfter%d", o.retryAfter)
		}
	} else {
		s = "grpc" + o.code.String()
		if o.retryInfo >= 0 {
			s += fmt.Sprintf("+RetryInfo%v", o.retryInfo)
		}
	}
	if o.chunked {
		s += "+chunked"
	}
	if o.partial {
		s += "+partial"
	}
	if o.latency > 0 {
		s += fmt.Sprintf("+lat%v", o.latency)
	}
	return s
}

func (o outcome) success(isGRPC bool) bool {
	if isGRPC {
		return o.code == codes.OK
	}
	return !o.dialFail && o.status >= 200 && o.status <= 299
}

// retryable: the property's table.
func (o outcome) retryable(isGRPC bool) bool {
	if isGRPC {
		switch o.code {
		case codes.Canceled, codes.DeadlineExceeded, codes.Aborted, codes.OutOfRange, codes.Unavailable, codes.DataLoss:
			return true
		case codes.ResourceExhausted:
			return o.retryInfo >= 0
		}
		return false
	}
	if o.dialFail {
		return true
	}
	switch o.status {
	case 429, 502, 503, 504:
		return true
	}
	return false
}

func (o outcome) serverDelay(isGRPC bool) time.Duration {
	if isGRPC {
		if o.retryInfo > 0 {
			return o.retryInfo
		}
		return 0
	}
	if o.retryAfter > 0 && !o.dialFail {
		return time.Duration(o.retryAfter) * time.Second
	}
	return 0
}

type attempt struct {
	call int
	at   time.Duration
	hash string
	idx  int
}

type callRec struct {
	idx        int
	script     []outcome
	start, end time.Duration
	err        error
	returned   bool
	deadline   time.Duration // relative to start: min(ctx timeout, exporter timeout)
	attempts   []attempt
}

type world struct {
	r   *simdrv.Run
	sim *simrt.Sim
	mu  sync.Mutex // handler-side state is touched by uninstrumented server goroutines

	t0        time.Time
	isGRPC    bool
	cur       *callRec
	calls     []*callRec
	handled   []string // errors passed to otel.ErrorHandler
	sdInv     time.Duration
	sdRet     time.Duration
	sdCalled  bool
	sdTimeout time.Duration

	expTimeout time.Duration
	sawGzip    bool
	concurrent bool             // two export calls in flight at once: attempts are attributed by payload
	inflight   map[int]*callRec // concurrent mode
}

// callOf finds which call a payload belongs to (every call's telemetry carries the marker "call<i>").
func callOf(payload []byte) int {
	for i := 0; i < 4; i++ {
		if bytes.Contains(payload, []byte(fmt.Sprintf("call%d", i))) {
			return i
		}
	}
	return -1
}

// arriveCall registers an attempt of a specific call (concurrent mode).
func (w *world) arriveCall(call int, hash string) outcome {
	w.mu.Lock()
	defer w.mu.Unlock()
	c := w.inflight[call]
	if c == nil {
		return outcome{status: 200, code: codes.OK, retryAfter: -1, retryInfo: -1}
	}
	i := len(c.attempts)
	c.attempts = append(c.attempts, attempt{call: c.idx, at: w.now(), hash: hash, idx: i})
	if i < len(c.script) {
		return c.script[i]
	}
	return outcome{status: 200, code: codes.OK, retryAfter: -1, retryInfo: -1}
}

// effective turns a scripted outcome into what the client can observe: the HTTP exporters apply their
// timeout per attempt (http.Client.Timeout), so a response slower than that is a timed-out request,
// i.e. a temporary network error.
func (w *world) effective(oc outcome) outcome {
	if !w.isGRPC && !oc.dialFail && w.expTimeout > 0 && oc.latency > w.expTimeout {
		return outcome{dialFail: true, clientTimeout: true, retryAfter: -1, retryInfo: -1, latency: w.expTimeout}
	}
	return oc
}

func (w *world) now() time.Duration { return time.Since(w.t0) }

// arrive registers an attempt for the call in progress and returns its scripted outcome.
func (w *world) arrive(hash string) (outcome, int) {
	w.mu.Lock()
	defer w.mu.Unlock()
	c := w.cur
	if c == nil {
		return outcome{status: 200, code: codes.OK, retryAfter: -1, retryInfo: -1}, -1
	}
	i := len(c.attempts)
	c.attempts = append(c.attempts, attempt{call: c.idx, at: w.now(), hash: hash, idx: i})
	if i < len(c.script) {
		return c.script[i], i
	}
	return outcome{status: 200, code: codes.OK, retryAfter: -1, retryInfo: -1}, i
}

// setHash fills in the payload hash of the latest attempt (HTTP: the attempt is registered at dial
// time, the body is only known in the handler).
func (w *world) setHash(h string) {
	w.mu.Lock()
	defer w.mu.Unlock()
	if c := w.cur; c != nil && len(c.attempts) > 0 {
		c.attempts[len(c.attempts)-1].hash = h
	}
}

// ---- HTTP collector ----

type httpCollector struct {
	w       *world
	l       *pipeListener
	srv     *http.Server
	pending sync.Map // net.Conn (server side) -> outcome of the attempt that dialled it
	lastMu  sync.Mutex
	last    outcome
}

func (h *httpCollector) dial(ctx context.Context, _, _ string) (net.Conn, error) {
	if h.w.concurrent {
		return h.l.connect(ctx) // the attempt is registered by the handler, once the payload says whose it is
	}
	oc, _ := h.w.arrive("")
	if oc.dialFail {
		return nil, tempErr{}
	}
	h.lastMu.Lock()
	h.last = oc
	h.lastMu.Unlock()
	return h.l.connect(ctx)
}

func (h *httpCollector) ServeHTTP(rw http.ResponseWriter, req *http.Request) {
	body, _ := io.ReadAll(req.Body)
	if req.Header.Get("Content-Encoding") == "gzip" {
		if zr, err := gzip.NewReader(bytes.NewReader(body)); err == nil {
			if plain, err := io.ReadAll(zr); err == nil {
				body = plain
				h.w.mu.Lock()
				h.w.sawGzip = true
				h.w.mu.Unlock()
			}
		}
	}
	var oc outcome
	if h.w.concurrent {
		oc = h.w.arriveCall(callOf(body), fmt.Sprintf("%x", sha256.Sum256(body))[:16])
	} else {
		h.w.setHash(fmt.Sprintf("%x", sha256.Sum256(body))[:16])
		h.lastMu.Lock()
		oc = h.last
		h.lastMu.Unlock()
	}
	if oc.latency > 0 {
		time.Sleep(oc.latency)
	}
	rw.Header().Set("Connection", "close")
	if oc.retryAfter >= 0 {
		rw.Header().Set("Retry-After", fmt.Sprint(oc.retryAfter))
	}
	if oc.partial && oc.status == 200 {
		var b []byte
		switch {
		case strings.HasSuffix(req.URL.Path, "traces"):
			b, _ = proto.Marshal(&coltracepb.ExportTraceServiceResponse{PartialSuccess: &coltracepb.ExportTracePartialSuccess{RejectedSpans: 1, ErrorMessage: "partially rejected"}})
		case strings.HasSuffix(req.URL.Path, "metrics"):
			b, _ = proto.Marshal(&colmetricpb.ExportMetricsServiceResponse{PartialSuccess: &colmetricpb.ExportMetricsPartialSuccess{RejectedDataPoints: 1, ErrorMessage: "partially rejected"}})
		default:
			b, _ = proto.Marshal(&collogspb.ExportLogsServiceResponse{PartialSuccess: &collogspb.ExportLogsPartialSuccess{RejectedLogRecords: 1, ErrorMessage: "partially rejected"}})
		}
		rw.Header().Set("Content-Type", "application/x-protobuf")
		rw.WriteHeader(200)
		if oc.chunked {
			// headers go out before the body: the response is chunked and its length unknown to the client
			if f, ok := rw.(http.Flusher); ok {
				f.Flush()
			}
		}
		rw.Write(b)
		return
	}
	rw.WriteHeader(oc.status)
}

// ---- gRPC collector ----

type grpcCollector struct {
	coltracepb.UnimplementedTraceServiceServer
	w *world
}

func (g *grpcCollector) respond(m proto.Message) (outcome, error) {
	b, _ := proto.MarshalOptions{Deterministic: true}.Marshal(m)
	var oc outcome
	if g.w.concurrent {
		oc = g.w.arriveCall(callOf(b), fmt.Sprintf("%x", sha256.Sum256(b))[:16])
	} else {
		oc, _ = g.w.arrive(fmt.Sprintf("%x", sha256.Sum256(b))[:16])
	}
	if oc.latency > 0 {
		time.Sleep(oc.latency)
	}
	if oc.code == codes.OK {
		return oc, nil
	}
	st := status.New(oc.code, "scripted")
	if oc.retryInfo >= 0 {
		st, _ = st.WithDetails(&errdetails.RetryInfo{RetryDelay: durationpb.New(oc.retryInfo)})
	}
	return oc, st.Err()
}

func (g *grpcCollector) Export(ctx context.Context, req *coltracepb.ExportTraceServiceRequest) (*coltracepb.ExportTraceServiceResponse, error) {
	oc, err := g.respond(req)
	if err != nil {
		return nil, err
	}
	resp := &coltracepb.ExportTraceServiceResponse{}
	if oc.partial {
		resp.PartialSuccess = &coltracepb.ExportTracePartialSuccess{RejectedSpans: 1, ErrorMessage: "partially rejected"}
	}
	return resp, nil
}

type grpcMetrics struct {
	colmetricpb.UnimplementedMetricsServiceServer
	g *grpcCollector
}

func (m *grpcMetrics) Export(ctx context.Context, req *colmetricpb.ExportMetricsServiceRequest) (*colmetricpb.ExportMetricsServiceResponse, error) {
	oc, err := m.g.respond(req)
	if err != nil {
		return nil, err
	}
	resp := &colmetricpb.ExportMetricsServiceResponse{}
	if oc.partial {
		resp.PartialSuccess = &colmetricpb.ExportMetricsPartialSuccess{RejectedDataPoints: 1, ErrorMessage: "partially rejected"}
	}
	return resp, nil
}

type grpcLogs struct {
	collogspb.UnimplementedLogsServiceServer
	g *grpcCollector
}

func (m *grpcLogs) Export(ctx context.Context, req *collogspb.ExportLogsServiceRequest) (*collogspb.ExportLogsServiceResponse, error) {
	oc, err := m.g.respond(req)
	if err != nil {
		return nil, err
	}
	resp := &collogspb.ExportLogsServiceResponse{}
	if oc.partial {
		resp.PartialSuccess = &collogspb.ExportLogsPartialSuccess{RejectedLogRecords: 1, ErrorMessage: "partially rejected"}
	}
	return resp, nil
}

// ---- exporter under test ----

type exporterUT struct {
	export   func(ctx context.Context, call int) error
	shutdown func(ctx context.Context) error
}

// <pkg>Proxy returns the package's WithProxy option when on, an option without effect otherwise.
func otlptracehttpProxy(on bool, f func(*http.Request) (*url.URL, error)) otlptracehttp.Option {
	if on {
		return otlptracehttp.WithProxy(otlptracehttp.HTTPTransportProxyFunc(f))
	}
	return otlptracehttp.WithHeaders(nil)
}

func otlpmetrichttpProxy(on bool, f func(*http.Request) (*url.URL, error)) otlpmetrichttp.Option {
	if on {
		return otlpmetrichttp.WithProxy(otlpmetrichttp.HTTPTransportProxyFunc(f))
	}
	return otlpmetrichttp.WithHeaders(nil)
}

func otlploghttpProxy(on bool, f func(*http.Request) (*url.URL, error)) otlploghttp.Option {
	if on {
		return otlploghttp.WithProxy(otlploghttp.HTTPTransportProxyFunc(f))
	}
	return otlploghttp.WithHeaders(nil)
}

type retryCfg struct {
	enabled                bool
	initial, max, maxTotal time.Duration
}

func (engine) Body(r *simdrv.Run) {
	w := &world{r: r}
	kinds := []string{"tracehttp", "tracegrpc", "metrichttp", "metricgrpc", "loghttp", "loggrpc"}
	kind := kinds[r.Cfg(len(kinds))]
	w.isGRPC = strings.HasSuffix(kind, "grpc")
	rc := retryCfg{enabled: r.Cfg(5) != 0}
	rc.initial = []time.Duration{time.Millisecond, 100 * time.Millisecond, time.Second}[r.Cfg(3)]
	rc.max = rc.initial * time.Duration([]int{1, 2, 5}[r.Cfg(3)])
	rc.maxTotal = []time.Duration{0, 50 * time.Millisecond, 2 * time.Second, 30 * time.Second, time.Minute}[r.Cfg(5)]
	expTimeout := []time.Duration{100 * time.Millisecond, 5 * time.Second, 30 * time.Second, 2 * time.Minute, 0}[r.Cfg(5)] // 0: no exporter timeout
	useGzip := r.Cfg(3) == 0
	nCalls := 1 + r.Cfg(2)
	lat := []time.Duration{0, 0, time.Millisecond, 300 * time.Millisecond, 3 * time.Second}
	for c := 0; c < nCalls; c++ {
		rec := &callRec{idx: c}
		n := r.Cfg(5)
		for i := 0; i < n; i++ {
			oc := outcome{retryAfter: -1, retryInfo: -1, latency: lat[r.Cfg(len(lat))]}
			if w.isGRPC {
				oc.code = []codes.Code{codes.Unavailable, codes.Unavailable, codes.ResourceExhausted, codes.ResourceExhausted, codes.Canceled, codes.DeadlineExceeded, codes.Aborted, codes.OutOfRange, codes.DataLoss,
					codes.Unknown, codes.InvalidArgument, codes.NotFound, codes.AlreadyExists, codes.PermissionDenied, codes.FailedPrecondition, codes.Unimplemented, codes.Internal, codes.Unauthenticated, codes.OK}[r.Cfg(19)]
				if r.Cfg(2) == 1 {
					oc.retryInfo = []time.Duration{0, 10 * time.Millisecond, time.Second, 7 * time.Second}[r.Cfg(4)]
				}
			} else {
				oc.status = []int{503, 503, 429, 502, 504, 400, 401, 404, 408, 413, 500, 200}[r.Cfg(12)]
				if r.Cfg(2) == 1 {
					oc.retryAfter = []int{0, 1, 2, 7}[r.Cfg(4)]
				}
				if r.Cfg(8) == 0 {
					oc = outcome{dialFail: true, retryAfter: -1, retryInfo: -1}
				}
			}
			if oc.success(w.isGRPC) {
				oc.partial = r.Cfg(2) == 1
				oc.chunked = oc.partial && !w.isGRPC && r.Cfg(2) == 1
			}
			rec.script = append(rec.script, oc)
		}
		// what follows the script is a success, sometimes a partial success
		w.calls = append(w.calls, rec)
	}
	w.concurrent = nCalls == 2 && r.Cfg(3) == 0
	if w.concurrent {
		w.inflight = map[int]*callRec{}
		for _, c := range w.calls {
			for i := range c.script {
				if c.script[i].dialFail { // a dial cannot be attributed to one of two calls in flight
					c.script[i] = outcome{status: 503, retryAfter: -1, retryInfo: -1}
				}
			}
		}
	}
	ctxTimeout := []time.Duration{0, 0, 150 * time.Millisecond, 4 * time.Second, 20 * time.Second}[r.Cfg(5)]
	shutdownAt := []time.Duration{-1, -1, -1, 0, 50 * time.Millisecond, 999 * time.Millisecond, time.Second, 1001 * time.Millisecond, 6 * time.Second}[r.Cfg(9)]
	// a proxy function that chooses no proxy sends the HTTP exporters down the branch that builds their
	// client on a cloned transport (after seeded change C14-h)
	useProxy := !w.isGRPC && r.Cfg(3) == 0
	noProxy := func(*http.Request) (*url.URL, error) { return nil, nil }
	r.Res.Config["proxy_option"] = useProxy
	r.Res.Config["gzip"] = useGzip
	r.Res.Config["concurrent_calls"] = w.concurrent
	r.Res.Config["exporter"] = kind
	r.Res.Config["retry"] = fmt.Sprintf("%+v", rc)
	r.Res.Config["exporter_timeout"] = expTimeout.String()
	r.Res.Config["ctx_timeout"] = ctxTimeout.String()
	// instead of a deadline the caller may cancel its context at that instant (another task does it)
	ctxByCancel := ctxTimeout > 0 && r.Cfg(3) == 0
	r.Res.Config["ctx_cancelled_by_caller"] = ctxByCancel
	r.Res.Config["shutdown_at"] = shutdownAt.String()
	sdTimeout := []time.Duration{0, 0, 50 * time.Millisecond, time.Second, -1}[r.Cfg(5)] // 0: Shutdown(context.Background()), -1: a context that is already cancelled
	r.Res.Config["shutdown_ctx_timeout"] = sdTimeout.String()
	w.sdTimeout = sdTimeout
	for _, c := range w.calls {
		r.Res.Config[fmt.Sprintf("script%d", c.idx)] = fmt.Sprint(c.script)
	}

	cfg := r.DrawSched([]time.Duration{time.Nanosecond, time.Millisecond, 100 * time.Millisecond}, 2*time.Hour, 20000)
	cfg.AdvanceDenom = 0 // simulated time here is driven by the retry timers themselves; exact instants matter
	sim := r.Start(cfg)
	w.sim = sim
	w.t0 = time.Now()
	w.expTimeout = expTimeout
	// cenkalti/backoff draws its jitter from the global math/rand source: make it a function of the seed
	rand.Seed(r.Tape.Seed) //nolint:staticcheck // deliberate: re-seed the process-global source per run
	otel.SetErrorHandler(otel.ErrorHandlerFunc(func(err error) {
		w.mu.Lock()
		w.handled = append(w.handled, err.Error())
		w.mu.Unlock()
	}))

	l := &pipeListener{ch: make(chan net.Conn), done: make(chan struct{})}
	var cleanup []func()
	ctx0 := context.Background()
	var ex exporterUT
	var err error
	res := resource.NewSchemaless(attribute.String("service.name", "sim"))
	mkMetrics := func(call int) *metricdata.ResourceMetrics {
		return &metricdata.ResourceMetrics{Resource: res, ScopeMetrics: []metricdata.ScopeMetrics{{Metrics: []metricdata.Metrics{{Name: fmt.Sprintf("call%d.metric", call),
			Data: metricdata.Sum[int64]{Temporality: metricdata.CumulativeTemporality, IsMonotonic: true, DataPoints: []metricdata.DataPoint[int64]{{Value: int64(call) + 1}}}}}}}}
	}
	mkLogs := func(call int) []sdklog.Record {
		var rec sdklog.Record
		rec.SetBody(log.StringValue(fmt.Sprintf("call%d", call)))
		return []sdklog.Record{rec}
	}
	if w.isGRPC {
		gs := grpc.NewServer()
		gc := &grpcCollector{w: w}
		coltracepb.RegisterTraceServiceServer(gs, gc)
		colmetricpb.RegisterMetricsServiceServer(gs, &grpcMetrics{g: gc})
		collogspb.RegisterLogsServiceServer(gs, &grpcLogs{g: gc})
		go gs.Serve(l)
		cleanup = append(cleanup, gs.Stop)
		dial := grpc.WithContextDialer(func(ctx context.Context, _ string) (net.Conn, error) { return l.connect(ctx) })
		creds := grpc.WithTransportCredentials(insecure.NewCredentials())
		switch kind {
		case "tracegrpc":
			e, e2 := otlptracegrpc.New(ctx0, otlptracegrpc.WithEndpoint("passthrough:///sim"), otlptracegrpc.WithInsecure(), otlptracegrpc.WithDialOption(dial, creds), otlptracegrpc.WithTimeout(expTimeout), otlptracegrpc.WithCompressor(map[bool]string{true: "gzip", false: ""}[useGzip]),
				otlptracegrpc.WithRetry(otlptracegrpc.RetryConfig{Enabled: rc.enabled, InitialInterval: rc.initial, MaxInterval: rc.max, MaxElapsedTime: rc.maxTotal}))
			err = e2
			if e != nil {
				ex = exporterUT{export: func(ctx context.Context, call int) error {
					return e.ExportSpans(ctx, tracetest.SpanStubs{{Name: fmt.Sprintf("call%d", call)}}.Snapshots())
				}, shutdown: e.Shutdown}
			}
		case "metricgrpc":
			e, e2 := otlpmetricgrpc.New(ctx0, otlpmetricgrpc.WithEndpoint("passthrough:///sim"), otlpmetricgrpc.WithInsecure(), otlpmetricgrpc.WithDialOption(dial, creds), otlpmetricgrpc.WithTimeout(expTimeout), otlpmetricgrpc.WithCompressor(map[bool]string{true: "gzip", false: ""}[useGzip]),
				otlpmetricgrpc.WithRetry(otlpmetricgrpc.RetryConfig{Enabled: rc.enabled, InitialInterval: rc.initial, MaxInterval: rc.max, MaxElapsedTime: rc.maxTotal}))
			err = e2
			if e != nil {
				ex = exporterUT{export: func(ctx context.Context, call int) error { return e.Export(ctx, mkMetrics(call)) }, shutdown: e.Shutdown}
			}
		default:
			e, e2 := otlploggrpc.New(ctx0, otlploggrpc.WithEndpoint("passthrough:///sim"), otlploggrpc.WithInsecure(), otlploggrpc.WithDialOption(dial, creds), otlploggrpc.WithTimeout(expTimeout), otlploggrpc.WithCompressor(map[bool]string{true: "gzip", false: ""}[useGzip]),
				otlploggrpc.WithRetry(otlploggrpc.RetryConfig{Enabled: rc.enabled, InitialInterval: rc.initial, MaxInterval: rc.max, MaxElapsedTime: rc.maxTotal}))
			err = e2
			if e != nil {
				ex = exporterUT{export: func(ctx context.Context, call int) error { return e.Export(ctx, mkLogs(call)) }, shutdown: e.Shutdown}
			}
		}
	} else {
		hc := &httpCollector{w: w, l: l}
		hc.srv = &http.Server{Handler: hc}
		go hc.srv.Serve(l)
		cleanup = append(cleanup, func() { hc.srv.Close() })
		switch kind {
		case "tracehttp":
			otlptracehttp.VerifSimSetDial(hc.dial)
			cleanup = append(cleanup, otlptracehttp.VerifSimCloseIdle)
			e, e2 := otlptracehttp.New(ctx0, otlptracehttp.WithEndpoint("sim:4318"), otlptracehttp.WithInsecure(), otlptracehttpProxy(useProxy, noProxy), otlptracehttp.WithTimeout(expTimeout), otlptracehttp.WithCompression(map[bool]otlptracehttp.Compression{true: otlptracehttp.GzipCompression, false: otlptracehttp.NoCompression}[useGzip]),
				otlptracehttp.WithRetry(otlptracehttp.RetryConfig{Enabled: rc.enabled, InitialInterval: rc.initial, MaxInterval: rc.max, MaxElapsedTime: rc.maxTotal}))
			err = e2
			if e != nil {
				ex = exporterUT{export: func(ctx context.Context, call int) error {
					return e.ExportSpans(ctx, tracetest.SpanStubs{{Name: fmt.Sprintf("call%d", call)}}.Snapshots())
				}, shutdown: e.Shutdown}
			}
		case "metrichttp":
			otlpmetrichttp.VerifSimSetDial(hc.dial)
			cleanup = append(cleanup, otlpmetrichttp.VerifSimCloseIdle)
			e, e2 := otlpmetrichttp.New(ctx0, otlpmetrichttp.WithEndpoint("sim:4318"), otlpmetrichttp.WithInsecure(), otlpmetrichttpProxy(useProxy, noProxy), otlpmetrichttp.WithTimeout(expTimeout), otlpmetrichttp.WithCompression(map[bool]otlpmetrichttp.Compression{true: otlpmetrichttp.GzipCompression, false: otlpmetrichttp.NoCompression}[useGzip]),
				otlpmetrichttp.WithRetry(otlpmetrichttp.RetryConfig{Enabled: rc.enabled, InitialInterval: rc.initial, MaxInterval: rc.max, MaxElapsedTime: rc.maxTotal}))
			err = e2
			if e != nil {
				ex = exporterUT{export: func(ctx context.Context, call int) error { return e.Export(ctx, mkMetrics(call)) }, shutdown: e.Shutdown}
			}
		default:
			otlploghttp.VerifSimSetDial(hc.dial)
			cleanup = append(cleanup, otlploghttp.VerifSimCloseIdle)
			e, e2 := otlploghttp.New(ctx0, otlploghttp.WithEndpoint("sim:4318"), otlploghttp.WithInsecure(), otlploghttpProxy(useProxy, noProxy), otlploghttp.WithTimeout(expTimeout), otlploghttp.WithCompression(map[bool]otlploghttp.Compression{true: otlploghttp.GzipCompression, false: otlploghttp.NoCompression}[useGzip]),
				otlploghttp.WithRetry(otlploghttp.RetryConfig{Enabled: rc.enabled, InitialInterval: rc.initial, MaxInterval: rc.max, MaxElapsedTime: rc.maxTotal}))
			err = e2
			if e != nil {
				ex = exporterUT{export: func(ctx context.Context, call int) error { return e.Export(ctx, mkLogs(call)) }, shutdown: e.Shutdown}
			}
		}
	}
	defer func() {
		for i := len(cleanup) - 1; i >= 0; i-- {
			cleanup[i]()
		}
		l.Close()
	}()
	if err != nil || ex.export == nil {
		r.Res.Outcome = "harness-panic"
		r.Res.Detail = fmt.Sprintf("constructing %s: %v", kind, err)
		sim.Finish()
		return
	}

	doCall := func(c *callRec) {
		simrt.Yield(simdrv.PtOp)
		ctx, cancel := context.Background(), context.CancelFunc(func() {})
		// gRPC exporters bound the whole export by their timeout; HTTP exporters apply it per attempt
		c.deadline = 1000 * time.Hour
		if w.isGRPC && expTimeout > 0 {
			c.deadline = expTimeout
		}
		if ctxByCancel {
			ctx, cancel = context.WithCancel(ctx)
			cf := cancel
			simrt.Go(simdrv.PtStub, func() {
				simrt.Sleep(ctxTimeout, simdrv.PtSleep)
				cf()
			})
			r.Fault("caller-cancels-context")
			if ctxTimeout < c.deadline {
				c.deadline = ctxTimeout
			}
		} else if ctxTimeout > 0 {
			ctx, cancel = context.WithTimeout(ctx, ctxTimeout)
			if ctxTimeout < c.deadline {
				c.deadline = ctxTimeout
			}
		}
		w.mu.Lock()
		if w.concurrent {
			w.inflight[c.idx] = c
		} else {
			w.cur = c
		}
		c.start = w.now()
		w.mu.Unlock()
		r.Log("%d export-invoke call=%d t=%v", sim.Stamp(), c.idx, c.start)
		e := ex.export(ctx, c.idx)
		simrt.Woke(simdrv.PtOp)
		w.mu.Lock()
		c.err, c.end, c.returned = e, w.now(), true
		if w.concurrent {
			delete(w.inflight, c.idx)
		} else {
			w.cur = nil
		}
		w.mu.Unlock()
		cancel()
		r.Log("%d export-return call=%d t=%v err=%v attempts=%d", sim.Stamp(), c.idx, c.end, e != nil, len(c.attempts))
		r.Res.Ops++
	}
	if w.concurrent {
		for _, c := range w.calls {
			c := c
			sim.Spawn(fmt.Sprintf("exporter%d", c.idx), func() { doCall(c) })
		}
		r.Fault("concurrent-export-calls")
	} else {
		sim.Spawn("exporter", func() {
			for _, c := range w.calls {
				doCall(c)
			}
		})
	}
	if shutdownAt >= 0 {
		sim.Spawn("stopper", func() {
			if shutdownAt > 0 {
				simrt.Sleep(shutdownAt, simdrv.PtSleep)
			}
			simrt.Yield(simdrv.PtOp)
			w.mu.Lock()
			w.sdInv, w.sdCalled = w.now(), true
			w.mu.Unlock()
			r.Log("%d shutdown-invoke t=%v", sim.Stamp(), w.sdInv)
			sctx, scancel := context.Background(), context.CancelFunc(func() {})
			if sdTimeout > 0 {
				sctx, scancel = context.WithTimeout(sctx, sdTimeout)
				r.Fault("shutdown-with-deadline")
			} else if sdTimeout < 0 {
				sctx, scancel = context.WithCancel(sctx)
				scancel()
				r.Fault("shutdown-with-cancelled-context")
			}
			e := ex.shutdown(sctx)
			scancel()
			simrt.Woke(simdrv.PtOp)
			w.mu.Lock()
			w.sdRet = w.now()
			w.mu.Unlock()
			r.Log("%d shutdown-return t=%v err=%v", sim.Stamp(), w.sdRet, e)
			r.Fault("shutdown-during-export")
		})
	}
	out := sim.Run()
	r.Finish(out)
	r.Res.NonTrivial = len(sim.TaskNames()) >= 2
	if r.Res.Outcome == "harness-panic" {
		return
	}
	switch out.Kind {
	case simrt.Budget:
		return
	case simrt.Fatal:
		r.Violate(prop, "panic", "panic", "%s", out.Detail)
		return
	case simrt.Deadlock:
		r.Violate(prop, "deadlock", "deadlock", "%s", out.Detail)
		return
	case simrt.Hang:
		r.Violate(prop, "blocks-forever", "blocks-forever/"+kind, "an export or shutdown call never returned: %s", out.Detail)
		return
	}
	if w.sawGzip {
		r.Probe("gzip-payload")
	}
	w.oracle(kind, rc)
}

func (w *world) oracle(kind string, rc retryCfg) {
	r := w.r
	proto := "http"
	if w.isGRPC {
		proto = "grpc"
	}
	ok200 := outcome{status: 200, code: codes.OK, retryAfter: -1, retryInfo: -1}
	for _, c := range w.calls {
		if !c.returned {
			continue
		}
		for _, a := range c.attempts {
			oc := ok200
			if a.idx < len(c.script) {
				oc = w.effective(c.script[a.idx])
			}
			r.Log("call %d attempt %d at %v hash=%s outcome=%s", c.idx, a.idx, a.at, a.hash, oc)
			r.Fault("outcome-" + strings.SplitN(oc.String(), "+", 2)[0])
		}
		n := len(c.attempts)
		outcomeOf := func(i int) outcome {
			if i < len(c.script) {
				return w.effective(c.script[i])
			}
			return ok200
		}
		// the instant after which nothing may start / the call must have returned
		deadlineAt := c.start + c.deadline
		if w.concurrent && n > 0 && c.attempts[0].at > c.start {
			// serialised behind the other call: the exporter's own timeout starts with its first attempt
			deadlineAt = c.attempts[0].at + c.deadline
		}
		interrupted := c.end >= c.start+c.deadline // the earliest instant at which any of its deadlines can have fired
		if w.sdCalled && w.sdInv <= c.end {
			interrupted = true
		}
		where := fmt.Sprintf("%s call %d", kind, c.idx)
		// (1) identical payloads
		for i := 1; i < n; i++ {
			if c.attempts[i].hash != "" && c.attempts[0].hash != "" && c.attempts[i].hash != c.attempts[0].hash {
				r.Violate(prop, "payload-changed", "payload-changed/"+proto, "%s: attempt %d carries a different payload (%s) than attempt 0 (%s)", where, i, c.attempts[i].hash, c.attempts[0].hash)
			}
		}
		// (2) a further attempt only after a retryable outcome, with retry enabled
		for i := 0; i+1 < n; i++ {
			oc := outcomeOf(i)
			if !rc.enabled {
				r.Violate(prop, "retried-with-retry-disabled", "retried-with-retry-disabled/"+proto, "%s: %d attempts although retry is disabled", where, n)
				break
			}
			if !oc.retryable(w.isGRPC) {
				cls := "retried-non-retryable"
				if oc.success(w.isGRPC) {
					cls = "retried-after-success"
				}
				r.Violate(prop, cls, cls+"/"+proto+"/"+strings.SplitN(oc.String(), "+lat", 2)[0], "%s: attempt %d followed the outcome %s of attempt %d", where, i+1, oc, i)
			}
			// (3) server-supplied delay
			if d := oc.serverDelay(w.isGRPC); d > 0 {
				gap := c.attempts[i+1].at - (c.attempts[i].at + oc.latency)
				if gap < d {
					r.Violate(prop, "server-delay-ignored", "server-delay-ignored/"+proto, "%s: attempt %d started %v after the response to attempt %d, which asked for a delay of %v (%s)", where, i+1, gap, i, d, oc)
				}
			}
		}
		// (3b) a back-off wait is never skipped: after a retryable response (not a timed-out or failed
		// connection, whose end the collector does not see) the next attempt starts no sooner than a quarter
		// of the configured initial interval later - the exponential back-off draws its waits from half to one
		// and a half times the current interval, which is never below the initial one (after seeded change
		// C14-m, whose wait returns at once when the deadline is nearer than the delay)
		for i := 0; i+1 < n && rc.enabled; i++ {
			oc := outcomeOf(i)
			if oc.clientTimeout || oc.dialFail || !oc.retryable(w.isGRPC) {
				continue
			}
			if gap := c.attempts[i+1].at - (c.attempts[i].at + oc.latency); gap < rc.initial/4 {
				r.Violate(prop, "backoff-skipped", "backoff-skipped/"+proto, "%s: attempt %d started %v after the response %s to attempt %d; the configured initial retry interval is %v", where, i+1, gap, oc, i, rc.initial)
			}
		}
		// (5) nothing starts after the deadline or after Shutdown has returned
		for _, a := range c.attempts {
			if a.at > deadlineAt {
				r.Violate(prop, "attempt-after-deadline", "attempt-after-deadline/"+proto, "%s: attempt %d started at %v, after the deadline %v", where, a.idx, a.at, deadlineAt)
			}
			if w.sdCalled && w.sdRet > 0 && a.at > w.sdRet {
				r.Violate(prop, "attempt-after-shutdown", "attempt-after-shutdown/"+kind, "%s: attempt %d started at %v, after Shutdown returned at %v", where, a.idx, a.at, w.sdRet)
			}
		}
		// (5b) the two trace exporters document that Shutdown cancels exports that are under way:
		// otlptracehttp at once ("Stop shuts down the client and interrupt any in-flight request"),
		// otlptracegrpc when Shutdown's context expires ("will cancel any active calls if ctx expires").
		// From that instant on no attempt starts and the call returns.
		forceAt := time.Duration(-1)
		sdCtx := fmt.Sprint(w.sdTimeout)
		if w.sdTimeout == 0 {
			sdCtx = "none"
		} else if w.sdTimeout < 0 {
			sdCtx = "already cancelled"
		}
		if w.sdCalled && kind == "tracehttp" {
			forceAt = w.sdInv
		}
		if w.sdCalled && kind == "tracegrpc" && w.sdTimeout > 0 {
			forceAt = w.sdInv + w.sdTimeout
		}
		if w.sdCalled && kind == "tracegrpc" && w.sdTimeout < 0 {
			forceAt = w.sdInv // the context is done when Shutdown is called
		}
		if forceAt >= 0 {
			for _, a := range c.attempts {
				if a.at > forceAt+time.Millisecond {
					r.Violate(prop, "attempt-after-shutdown", "attempt-after-forced-shutdown/"+kind, "%s: attempt %d started at %v although Shutdown (invoked at %v, context timeout: %s) cancels active exports at %v", where, a.idx, a.at, w.sdInv, sdCtx, forceAt)
				}
			}
			if c.start <= forceAt && c.end > forceAt+time.Millisecond && !w.concurrent {
				r.Violate(prop, "returned-late", "returned-late/forced-shutdown/"+kind, "%s returned at %v although Shutdown (invoked at %v, context timeout: %s) cancels active exports at %v", where, c.end, w.sdInv, sdCtx, forceAt)
			}
			if c.start <= forceAt && c.end >= forceAt && c.err != nil {
				r.Probe("export-cancelled-by-shutdown")
			}
		}
		// (4) the reported result
		if n > 0 {
			last := outcomeOf(n - 1)
			switch {
			case last.success(w.isGRPC):
				if c.err != nil && !interrupted {
					r.Violate(prop, "success-reported-as-failure", "success-reported-as-failure/"+proto, "%s: the collector accepted attempt %d (%s) but the call returned %v", where, n-1, last, c.err)
				}
				if c.err == nil && last.partial {
					w.mu.Lock()
					reports := 0
					for _, h := range w.handled {
						if strings.Contains(h, "partially rejected") {
							reports++
						}
					}
					w.mu.Unlock()
					nPartial := 0
					for _, c2 := range w.calls {
						if m := len(c2.attempts); m > 0 && c2.returned && c2.err == nil {
							if o := w.effective(c2.scriptAt(m-1, ok200)); o.partial && o.success(w.isGRPC) {
								nPartial++
							}
						}
					}
					if reports != nPartial {
						r.Violate(prop, "partial-success-report", "partial-success-report/"+proto, "%s: %d partial-success response(s) were delivered but the error handler received %d report(s)", where, nPartial, reports)
					}
				}
			default:
				if c.err == nil {
					r.Violate(prop, "failure-reported-as-success", "failure-reported-as-success/"+proto, "%s: the last attempt %d ended with %s but the call returned nil", where, n-1, last)
				}
				// (8) gave up although the budget allowed another attempt
				if last.retryable(w.isGRPC) && rc.enabled && !interrupted && !w.concurrent {
					respAt := c.attempts[n-1].at + last.latency
					elapsed := respAt - c.start
					need := max(last.serverDelay(w.isGRPC), 2*rc.max)
					if (rc.maxTotal == 0 || elapsed+need < rc.maxTotal) && respAt+need < deadlineAt && (!w.sdCalled || respAt+need < w.sdInv) {
						r.Violate(prop, "gave-up-early", "gave-up-early/"+proto, "%s: gave up after attempt %d (%s) at %v elapsed although max elapsed time %v, the deadline (%v) and the retry policy allowed another attempt", where, n-1, last, elapsed, rc.maxTotal, c.deadline)
					}
				}
			}
		} else if c.err == nil && !(w.sdCalled && w.sdInv <= c.end) {
			// (an export on a shut-down exporter is a documented no-op for several of the exporters)
			r.Violate(prop, "failure-reported-as-success", "no-attempt-reported-as-success/"+proto, "%s returned nil without any attempt reaching the transport", where)
		}
		// (6) never blocks beyond the budget
		var maxLat time.Duration
		for i := 0; i < n; i++ {
			maxLat = max(maxLat, outcomeOf(i).latency)
		}
		// (with two calls in flight the metric exporters serialise exports on a mutex, so a call's own
		// clock starts when the other one is done: the time bounds are only checked for single calls)
		if w.concurrent {
			continue
		}
		if c.end > deadlineAt+time.Millisecond {
			r.Violate(prop, "returned-late", "returned-late/deadline/"+proto, "%s returned at %v, after its deadline %v", where, c.end, deadlineAt)
		}
		if rc.enabled && rc.maxTotal > 0 && c.err != nil {
			var maxDelay time.Duration
			for i := 0; i < n; i++ {
				maxDelay = max(maxDelay, outcomeOf(i).serverDelay(w.isGRPC))
			}
			bound := rc.maxTotal + 2*rc.max + maxLat + time.Millisecond
			if c.end-c.start > bound {
				r.Violate(prop, "returned-late", "returned-late/max-elapsed/"+proto, "%s took %v with max elapsed time %v, max interval %v (bound %v)", where, c.end-c.start, rc.maxTotal, rc.max, bound)
			}
		}
		if !rc.enabled && n > 1 {
			r.Violate(prop, "retried-with-retry-disabled", "retried-with-retry-disabled/"+proto, "%s: %d attempts although retry is disabled", where, n)
		}
		if n > 1 {
			r.Probe("retried")
		}
		if interrupted {
			r.Probe("interrupted")
		}
	}
	_ = sort.Strings
	_ = errors.Is
}

func (c *callRec) scriptAt(i int, dflt outcome) outcome {
	if i < len(c.script) {
		return c.script[i]
	}
	return dflt
}
