// Engine lifecycle: property C15 (provider lifecycle: exact processor membership, single shutdown,
// safe afterwards) on the three SDK providers with the stock processors, readers and exporters.
package lifecycle

import (
	"context"
	"fmt"
	mnoop "go.opentelemetry.io/otel/metric/noop"
	"sort"
	"strings"
	"testing"
	"time"

	"go.opentelemetry.io/otel"
	"go.opentelemetry.io/otel/exporters/stdout/stdoutlog"
	"go.opentelemetry.io/otel/exporters/stdout/stdoutmetric"
	"go.opentelemetry.io/otel/exporters/stdout/stdouttrace"
	"go.opentelemetry.io/otel/log"
	sdklog "go.opentelemetry.io/otel/sdk/log"
	sdkmetric "go.opentelemetry.io/otel/sdk/metric"
	"go.opentelemetry.io/otel/sdk/metric/metricdata"
	sdktrace "go.opentelemetry.io/otel/sdk/trace"
	"go.opentelemetry.io/otel/sdk/trace/tracetest"

	"verif/simdrv"
	"verif/simrt"
)

const prop = "C15"

type engine struct{}

//go:norace
func (engine) Name() string { return "lifecycle" }

// RaceProps: a quarter of the workers run the race-detector build of this engine (DESIGN.md §2.11); a data
// race between two accesses of the code under test is reported under these properties.
//
//go:norace
func (engine) RaceProps() []string { return []string{"C15"} }

//go:norace
func TestWorker(t *testing.T) { simdrv.Worker(t, engine{}) }

// stampedWriter records when something was really written by a stock stdout exporter.
type stampedWriter struct {
	w      *world
	writes []wr
}

type wr struct {
	at   uint64
	task string
}

//go:norace
func (s *stampedWriter) Write(p []byte) (int, error) {
	s.writes = append(s.writes, wr{s.w.sim.Stamp(), s.w.sim.CurrentTask()})
	return len(p), nil
}

// telemetry operations (span End, Emit, Add) of workload tasks: a write that a stock exporter makes
// inside such a call is attributed to it, so that a call which merely overlapped a Shutdown is not
// mistaken for "further" telemetry after it.
type telOp struct {
	task     string
	inv, ret uint64
}

// lateWrites returns the writes made after stamp ret that cannot be attributed to a telemetry call
// that was already in progress when ret was taken.
//
//go:norace
func (w *world) lateWrites(out *stampedWriter, ret uint64) []wr {
	var late []wr
	for _, x := range out.writes {
		if x.at <= ret {
			continue
		}
		excused := false
		for _, t := range w.tel {
			if t.task == x.task && t.inv < ret && (t.ret == 0 || t.ret > x.at) {
				excused = true
			}
		}
		if !excused {
			late = append(late, x)
		}
	}
	return late
}

type call struct {
	inv, ret uint64
	err      error
	task     string
}

// ---- trace wrappers ----

type procWrap struct {
	w         *world
	id        int
	kind      string
	inner     sdktrace.SpanProcessor
	exp       *expWrap // nil: processor built around a nil exporter
	onEnd     map[string]uint64
	shutdowns []*call
}

//go:norace
func (p *procWrap) OnStart(ctx context.Context, s sdktrace.ReadWriteSpan) { p.inner.OnStart(ctx, s) }

//go:norace
func (p *procWrap) OnEnd(s sdktrace.ReadOnlySpan) {
	p.onEnd[s.Name()] = p.w.sim.Stamp()
	p.w.r.Log("%d onend proc=%d span=%s", p.onEnd[s.Name()], p.id, s.Name())
	p.inner.OnEnd(s)
}

//go:norace
func (p *procWrap) Shutdown(ctx context.Context) error {
	c := &call{inv: p.w.sim.Stamp(), task: p.w.sim.CurrentTask()}
	p.shutdowns = append(p.shutdowns, c)
	p.w.r.Log("%d proc-shutdown-begin proc=%d task=%s", c.inv, p.id, c.task)
	c.err = p.inner.Shutdown(ctx)
	c.ret = p.w.sim.Stamp()
	p.w.r.Log("%d proc-shutdown-end proc=%d err=%v", c.ret, p.id, c.err)
	return c.err
}

//go:norace
func (p *procWrap) ForceFlush(ctx context.Context) error { return p.inner.ForceFlush(ctx) }

type expWrap struct {
	w         *world
	id        int
	inner     sdktrace.SpanExporter
	mem       *tracetest.InMemoryExporter
	out       *stampedWriter
	exports   []uint64
	shutdowns []*call
}

//go:norace
func (e *expWrap) ExportSpans(ctx context.Context, s []sdktrace.ReadOnlySpan) error {
	e.exports = append(e.exports, e.w.sim.Stamp())
	return e.inner.ExportSpans(ctx, s)
}

//go:norace
func (e *expWrap) Shutdown(ctx context.Context) error {
	c := &call{inv: e.w.sim.Stamp(), task: e.w.sim.CurrentTask()}
	e.shutdowns = append(e.shutdowns, c)
	e.w.r.Log("%d exp-shutdown-begin exp=%d task=%s", c.inv, e.id, c.task)
	c.err = e.inner.Shutdown(ctx)
	c.ret = e.w.sim.Stamp()
	return c.err
}

type regEv struct {
	proc     int
	kind     string // register | unregister
	inv, ret uint64
}

type spanEv struct {
	name             string
	startInv         uint64
	endInv, endRet   uint64
	recording        bool
	tracerFromBefore bool
}

type world struct {
	r   *simdrv.Run
	sim *simrt.Sim
	ops []*simdrv.OpCall
	tel []*telOp
	// the bounded Settle phase after the workload ended with nothing runnable and nothing waking up
	settled bool
}

type planOp struct {
	kind  string
	arg   int
	ctxK  int
	sleep time.Duration
}

//go:norace
func (engine) Body(r *simdrv.Run) {
	w := &world{r: r}
	scenario := []string{"trace", "trace", "metric", "log"}[r.Cfg(4)]
	r.Res.Config["scenario"] = scenario
	nTasks := 2 + r.Cfg(3)
	if r.Cfg(6) == 0 {
		nTasks = 1 // the sequential special case
	}
	kinds := map[string][]string{
		"trace":  {"register", "register", "unregister", "unregister", "span", "span", "span", "tracer", "flush", "shutdown", "shutdown"},
		"metric": {"meter", "add", "add", "add", "collect", "flush", "shutdown", "shutdown"},
		"log":    {"logger", "emit", "emit", "emit", "flush", "shutdown", "shutdown"},
	}[scenario]
	plans := make([][]planOp, nTasks)
	for t := range plans {
		n := 3 + r.Cfg(8)
		for i := 0; i < n; i++ {
			op := planOp{kind: kinds[r.Cfg(len(kinds))], arg: r.Cfg(4), ctxK: []int{0, 0, 0, 1, 2}[r.Cfg(5)]}
			if r.Cfg(5) == 0 {
				op.sleep = []time.Duration{time.Millisecond, time.Second, 6 * time.Second}[r.Cfg(3)]
			}
			plans[t] = append(plans[t], op)
		}
	}
	r.Res.Config["plans"] = fmt.Sprintf("%+v", plans)
	sim := r.Start(r.DrawSched([]time.Duration{time.Nanosecond, time.Millisecond, time.Second, 5 * time.Second, 30 * time.Second}, 2*time.Hour, 30000))
	w.sim = sim
	otel.SetErrorHandler(otel.ErrorHandlerFunc(func(error) {}))
	switch scenario {
	case "trace":
		w.traceScenario(plans)
	case "metric":
		w.metricScenario(plans)
	default:
		w.logScenario(plans)
	}
}

//go:norace
func (w *world) anyShutdownInvoked() bool {
	for _, o := range w.ops {
		if o.Kind == "shutdown" {
			return true
		}
	}
	return false
}

// finish runs the simulation and deals with the outcomes common to all scenarios. It returns false
// if the history must not be evaluated further.
//
//go:norace
func (w *world) finish(pendingDesc func() []string) bool {
	r := w.r
	out := w.sim.Run()
	pending := pendingDesc()
	if out.Kind == simrt.Done {
		// "eventually" claims (a batch processor whose Shutdown gave up on its context shuts its exporter
		// down from a background goroutine) are only made about runs that came to rest
		w.settled = w.sim.Settle(3000, 2*time.Minute).Detail == "settled"
		if !w.settled {
			r.Probe("not-settled")
		}
	}
	r.Finish(out)
	r.Res.NonTrivial = w.sim.Switches > 0 && len(w.sim.TaskNames()) >= 2
	if r.Res.Outcome == "harness-panic" {
		return false
	}
	switch out.Kind {
	case simrt.Budget:
		return false
	case simrt.Fatal:
		what := "panic"
		if strings.Contains(out.Detail, "go@") {
			what = "panic-in-sdk-goroutine"
		}
		r.Violate(prop, "panic", what+"/"+w.panicSite(), "%s (a panic in a goroutine spawned by the SDK would crash the process)", out.Detail)
		return false
	case simrt.Deadlock:
		r.Violate(prop, "deadlock", "deadlock", "%s", out.Detail)
		return false
	case simrt.Hang:
		sort.Strings(pending)
		r.Violate(prop, "blocks-forever", "blocks-forever/"+strings.Join(uniq(pending), "+"), "call(s) %v never returned: %s", pending, out.Detail)
		return false
	}
	return true
}

//go:norace
func uniq(xs []string) []string {
	var out []string
	for i, x := range xs {
		if i == 0 || x != xs[i-1] {
			out = append(out, x)
		}
	}
	return out
}

// panicSite extracts a stable location of the first panic for the signature.
//
//go:norace
func (w *world) panicSite() string {
	if len(w.sim.Panics) == 0 {
		return "?"
	}
	for _, l := range strings.Split(w.sim.Panics[0].Stack, "\n") {
		l = strings.TrimSpace(l)
		if strings.HasPrefix(l, "go.opentelemetry.io/otel/") && !strings.Contains(l, "verif/") {
			if i := strings.Index(l, "("); i > 0 {
				l = l[:i]
			}
			return strings.TrimPrefix(l, "go.opentelemetry.io/otel/")
		}
	}
	return "?"
}

// ================= trace =================

//go:norace
func (w *world) traceScenario(plans [][]planOp) {
	r, sim := w.r, w.sim
	// four candidate processors over the stock processors and exporters (one around a nil exporter)
	var procs []*procWrap
	var blocking bool
	var qsize int
	mk := func(kind string, nilExp bool, stdout bool) {
		p := &procWrap{w: w, id: len(procs), kind: kind, onEnd: map[string]uint64{}}
		var exp sdktrace.SpanExporter
		if !nilExp {
			e := &expWrap{w: w, id: p.id}
			if stdout {
				e.out = &stampedWriter{w: w}
				x, _ := stdouttrace.New(stdouttrace.WithWriter(e.out))
				e.inner = x
			} else {
				e.mem = tracetest.NewInMemoryExporter()
				e.inner = e.mem
			}
			p.exp = e
			exp = e
		}
		if kind == "simple" {
			p.inner = sdktrace.NewSimpleSpanProcessor(exp)
		} else {
			bo := []sdktrace.BatchSpanProcessorOption{sdktrace.WithBatchTimeout(time.Second), sdktrace.WithMaxQueueSize(qsize), sdktrace.WithMaxExportBatchSize(1)}
			if blocking {
				bo = append(bo, sdktrace.WithBlocking())
			}
			p.inner = sdktrace.NewBatchSpanProcessor(exp, bo...)
		}
		procs = append(procs, p)
	}
	blocking = r.Cfg(3) == 0
	qsize = []int{1, 2, 4}[r.Cfg(3)]
	r.Res.Config["bsp_blocking"] = blocking
	r.Res.Config["bsp_queue"] = qsize
	nilIdx := r.Cfg(5) // which of the four (if any) is built around a nil exporter
	for i, k := range []string{"simple", "batch", "simple", "batch"} {
		mk(k, i == nilIdx, i >= 2)
	}
	var topts []sdktrace.TracerProviderOption
	var regs []regEv
	initial := r.Cfg(3) // processors 0..initial-1 are registered at construction
	for i := 0; i < initial; i++ {
		topts = append(topts, sdktrace.WithSpanProcessor(procs[i]))
		regs = append(regs, regEv{proc: i, kind: "register"})
	}
	r.Res.Config["initial_processors"] = initial
	r.Res.Config["nil_exporter_proc"] = nilIdx
	if nilIdx < 4 {
		r.Fault("processor-around-nil-exporter")
	}
	if blocking {
		r.Fault("bsp-blocking-mode")
	}
	tp := sdktrace.NewTracerProvider(topts...)
	tracer0 := tp.Tracer("before")
	var spans []*spanEv
	nSpan := 0
	inflight := map[string]string{}
	for t, plan := range plans {
		plan := plan
		name := fmt.Sprintf("t%d", t)
		sim.Spawn(name, func() {
			for _, op := range plan {
				if op.sleep > 0 {
					simrt.Sleep(op.sleep, simdrv.PtSleep)
				}
				simrt.Yield(simdrv.PtOp)
				switch op.kind {
				case "register", "unregister":
					ev := regEv{proc: op.arg, kind: op.kind, inv: sim.Stamp()}
					inflight[name] = op.kind
					r.Log("%d %s-invoke proc=%d task=%s", ev.inv, op.kind, op.arg, name)
					if op.kind == "register" {
						// "registered once": never hand the same processor to the provider twice
						already := false
						for _, e := range regs {
							if e.proc == op.arg && e.kind == "register" {
								already = true
							}
						}
						if already {
							delete(inflight, name)
							continue
						}
						regs = append(regs, ev)
						idx := len(regs) - 1
						tp.RegisterSpanProcessor(procs[op.arg])
						regs[idx].ret = sim.Stamp()
					} else {
						registered := false
						for _, e := range regs {
							if e.proc == op.arg && e.kind == "register" {
								registered = true
							}
						}
						if !registered {
							r.Fault("unregister-of-unregistered-processor")
						}
						regs = append(regs, ev)
						idx := len(regs) - 1
						tp.UnregisterSpanProcessor(procs[op.arg])
						regs[idx].ret = sim.Stamp()
					}
					delete(inflight, name)
					r.Log("%d %s-return proc=%d", sim.Stamp(), op.kind, op.arg)
				case "span", "tracer":
					nSpan++
					sv := &spanEv{name: fmt.Sprintf("s%d", nSpan), tracerFromBefore: op.kind == "span"}
					spans = append(spans, sv)
					tr := tracer0
					sv.startInv = sim.Stamp()
					inflight[name] = "start"
					if op.kind == "tracer" {
						tr = tp.Tracer(fmt.Sprintf("tr%d", op.arg))
					}
					_, sp := tr.Start(context.Background(), sv.name)
					sv.recording = sp.IsRecording()
					sv.endInv = sim.Stamp()
					tel := &telOp{task: name, inv: sv.endInv}
					w.tel = append(w.tel, tel)
					inflight[name] = "end"
					r.Log("%d end-invoke %s recording=%v fresh-tracer=%v", sv.endInv, sv.name, sv.recording, op.kind == "tracer")
					sp.End()
					sv.endRet = sim.Stamp()
					tel.ret = sv.endRet
					delete(inflight, name)
					r.Log("%d end-return %s", sv.endRet, sv.name)
				case "flush", "shutdown":
					ctx, cancel, ck := simdrv.MkCtx(op.ctxK, time.Second)
					if op.ctxK != 0 {
						r.Fault("caller-ctx-" + strings.SplitN(ck, "(", 2)[0])
					}
					if w.anyShutdownInvoked() {
						r.Fault(op.kind + "-after-or-during-shutdown")
					}
					o := &simdrv.OpCall{Kind: op.kind, Level: "tp", CtxKind: ck, Task: name, Inv: sim.Stamp()}
					w.ops = append(w.ops, o)
					inflight[name] = op.kind
					r.Log("%d %s-invoke ctx=%s task=%s", o.Inv, op.kind, ck, name)
					if op.kind == "flush" {
						o.Err = tp.ForceFlush(ctx)
					} else {
						o.Err = tp.Shutdown(ctx)
					}
					o.Ret = sim.Stamp()
					cancel()
					delete(inflight, name)
					r.Log("%d %s-return err=%v", o.Ret, op.kind, o.Err)
				}
				r.Res.Ops++
			}
		})
	}
	if !w.finish(func() []string {
		var out []string
		for _, v := range inflight {
			out = append(out, v)
		}
		return out
	}) {
		return
	}

	// ---- oracle ----
	firstSd := simdrv.FirstShutdownInv(w.ops)
	// per processor: registration intervals
	for _, p := range procs {
		var evs []regEv
		for _, e := range regs {
			if e.proc == p.id {
				evs = append(evs, e)
			}
		}
		var reg *regEv
		for i := range evs {
			if evs[i].kind == "register" {
				reg = &evs[i]
			}
		}
		for _, sv := range spans {
			if !sv.recording || sv.endRet == 0 {
				continue
			}
			_, delivered := p.onEnd[sv.name]
			if reg == nil {
				if delivered {
					r.Violate(prop, "delivered-to-unregistered", "delivered-to-unregistered", "span %s was delivered to processor %d, which was never registered", sv.name, p.id)
				}
				continue
			}
			// removal events of this processor
			removedBeforeEnd, removalDuring := false, false
			for _, e := range evs {
				if e.kind != "unregister" {
					continue
				}
				// definitely removed: the unregistration started after the registration had completed
				// (and had completed before any Shutdown was invoked: the provider ignores Unregister while shutting down)
				if (reg.inv == 0 || (reg.ret != 0 && e.inv > reg.ret)) && e.ret != 0 && e.ret < sv.endInv && (firstSd == 0 || e.ret < firstSd) {
					removedBeforeEnd = true
				}
				// possibly removed: any unregistration that can have followed the registration
				if (e.ret == 0 || e.ret > reg.inv) && e.inv < sv.endRet {
					removalDuring = true
				}
			}
			if firstSd != 0 && firstSd < sv.endRet {
				removalDuring = true
			}
			sdBefore, sdCtx := false, ""
			for _, o := range w.ops {
				if o.Kind == "shutdown" && o.Ret != 0 && o.Ret < sv.endInv && o.Err == nil {
					c := simdrv.ShutdownContext(w.ops, o)
					if !sdBefore || c == "plain" {
						sdCtx = c
					}
					sdBefore = true
				}
			}
			registeredBefore := reg.ret != 0 && reg.ret < sv.endInv || reg.inv == 0
			registeredAfter := reg.inv > sv.endRet
			if registeredBefore && !removalDuring && !delivered {
				// which unrelated operation happened? (signature detail for the report)
				detail := "plain"
				for _, e := range regs {
					if e.kind == "unregister" && e.proc != p.id && e.inv < sv.endRet {
						never := true
						for _, e2 := range regs {
							if e2.proc == e.proc && e2.kind == "register" && (e2.inv < e.inv || e2.inv == 0) {
								never = false
							}
						}
						if never {
							detail = "after-unregister-of-never-registered"
						}
					}
				}
				r.Violate(prop, "not-delivered", "not-delivered/"+detail, "span %s (End %d..%d) was not delivered to processor %d although it was registered (since %d) and neither unregistered nor shut down", sv.name, sv.endInv, sv.endRet, p.id, reg.ret)
			}
			if delivered && !registeredAfter && !removedBeforeEnd && sdBefore {
				r.Violate(prop, "delivered-to-unregistered", "delivered-after-shutdown/"+sdCtx, "span %s (End %d..%d) was delivered to processor %d after a provider Shutdown had returned nil", sv.name, sv.endInv, sv.endRet, p.id)
			} else if delivered && (registeredAfter || removedBeforeEnd) {
				r.Violate(prop, "delivered-to-unregistered", "delivered-to-unregistered", "span %s (End %d..%d) was delivered to processor %d although it was not registered at that time", sv.name, sv.endInv, sv.endRet, p.id)
			}
		}
		// shutdown exactly once
		if len(p.shutdowns) > 1 {
			r.Violate(prop, "shutdown-twice", "processor-shutdown-twice", "processor %d (%s) was shut down %d times (tasks %s, %s)", p.id, p.kind, len(p.shutdowns), p.shutdowns[0].task, p.shutdowns[1].task)
		}
		if p.exp != nil && len(p.exp.shutdowns) > 1 {
			r.Violate(prop, "shutdown-twice", "exporter-shutdown-twice", "exporter of processor %d was shut down %d times", p.id, len(p.exp.shutdowns))
		}
		for _, e := range evs {
			if e.kind != "unregister" || e.ret == 0 || reg == nil {
				continue
			}
			if (reg.ret != 0 && reg.ret < e.inv || reg.inv == 0) && (firstSd == 0 || firstSd > e.ret) {
				if len(p.shutdowns) == 0 || p.shutdowns[0].ret == 0 || p.shutdowns[0].ret > e.ret {
					r.Violate(prop, "not-shut-down", "not-shut-down/unregister", "processor %d was unregistered (returned at %d) without having been shut down", p.id, e.ret)
				}
			}
		}
		for _, o := range w.ops {
			if o.Kind != "shutdown" || o.Ret == 0 || o.Err != nil || reg == nil {
				continue
			}
			// a registration that can have raced with / followed any Shutdown may have been ignored
			registeredThen := (reg.ret != 0 && reg.ret < o.Inv && reg.ret < firstSd) || reg.inv == 0
			unreg := false
			for _, e := range evs {
				if e.kind == "unregister" && e.inv >= reg.inv && e.inv < o.Ret {
					unreg = true
				}
			}
			if registeredThen && !unreg {
				if len(p.shutdowns) == 0 || p.shutdowns[0].ret == 0 || p.shutdowns[0].ret > o.Ret {
					oc := simdrv.ShutdownContext(w.ops, o)
					r.Violate(prop, "not-shut-down", "not-shut-down/provider-shutdown/"+oc, "provider Shutdown (invoked %d) returned nil at %d but registered processor %d has not been shut down", o.Inv, o.Ret, p.id)
				}
			}
		}
		// whatever a provider Shutdown returned (also a context error), the processors registered at
		// that time have been told to shut down, and so - eventually - have their exporters
		if reg != nil && (reg.inv == 0 || (reg.ret != 0 && firstSd != 0 && reg.ret < firstSd)) {
			unregistered := false
			for _, e := range evs {
				if e.kind == "unregister" {
					unregistered = true
				}
			}
			returned := false
			for _, o := range w.ops {
				if o.Kind == "shutdown" && o.Ret != 0 {
					returned = true
				}
			}
			if returned && !unregistered {
				if len(p.shutdowns) == 0 {
					r.Violate(prop, "never-shut-down", "never-shut-down/processor", "provider Shutdown has returned but registered processor %d was never shut down", p.id)
				} else if p.exp != nil && len(p.exp.shutdowns) == 0 && w.settled {
					r.Violate(prop, "never-shut-down", "never-shut-down/trace-exporter", "provider Shutdown has returned and processor %d (%s) was shut down, but its exporter never was", p.id, p.kind)
				}
			}
		}
		if p.exp != nil && len(p.shutdowns) == 1 && p.shutdowns[0].ret != 0 && p.shutdowns[0].err == nil && len(p.exp.shutdowns) == 0 {
			r.Violate(prop, "not-shut-down", "not-shut-down/exporter", "processor %d was shut down (nil) but its exporter never was", p.id)
		}
		// nothing is exported after provider Shutdown returned nil: what the stock exporter really wrote / stored
		for _, o := range w.ops {
			if o.Kind != "shutdown" || o.Ret == 0 || o.Err != nil || p.exp == nil {
				continue
			}
			oc := simdrv.ShutdownContext(w.ops, o)
			if p.exp.out != nil {
				for _, x := range w.lateWrites(p.exp.out, o.Ret) {
					r.Violate(prop, "export-after-shutdown", "export-after-shutdown/trace/"+oc, "the stdout exporter of processor %d wrote at %d (task %s), after provider Shutdown (invoked %d) returned nil at %d", p.id, x.at, x.task, o.Inv, o.Ret)
				}
			}
			// ... and what the processor asked of its exporter: once the exporter's own Shutdown has returned
			// and the provider's Shutdown has returned nil, no ExportSpans call begins any more, whichever End
			// it stems from (the stock processors hold a lock across the export or have joined their worker
			// by then; after seeded change C15-i, which lets an End that read the exporter before Shutdown
			// export after it)
			for _, sd := range p.exp.shutdowns {
				if sd.ret == 0 {
					continue
				}
				for _, at := range p.exp.exports {
					if at > sd.ret && at > o.Ret {
						r.Violate(prop, "export-after-shutdown", "export-after-exporter-shutdown/"+p.kind+"/"+oc, "ExportSpans was called at %d on the exporter of processor %d (%s), after the exporter's Shutdown had returned at %d and provider Shutdown (invoked %d) had returned nil at %d", at, p.id, p.kind, sd.ret, o.Inv, o.Ret)
					}
				}
			}
		}
	}
	// after Shutdown returned: no-op tracers, harmless calls
	for _, o := range w.ops {
		if o.Kind != "shutdown" || o.Ret == 0 {
			continue
		}
		for _, sv := range spans {
			if !sv.tracerFromBefore && sv.startInv > o.Ret && sv.recording {
				r.Violate(prop, "recording-after-shutdown", "recording-after-shutdown", "span %s from a tracer requested at %d, after provider Shutdown returned at %d, is recording", sv.name, sv.startInv, o.Ret)
			}
		}
		for _, o2 := range w.ops {
			if o.Err == nil && o2.Inv > o.Ret && o2.Ret != 0 && o2.Err != nil && o2.CtxKind == "background" {
				r.Violate(prop, "error-after-shutdown", "error-after-shutdown/"+o2.Kind+"/"+simdrv.ShutdownContext(w.ops, o), "%s invoked at %d after provider Shutdown returned nil (at %d) failed: %v", o2.Kind, o2.Inv, o.Ret, o2.Err)
			}
		}
	}
}

// ================= metric =================

type mexp struct {
	w         *world
	inner     sdkmetric.Exporter
	out       *stampedWriter
	shutdowns []*call
	exports   []uint64
}

//go:norace
func (e *mexp) Temporality(k sdkmetric.InstrumentKind) metricdata.Temporality {
	return e.inner.Temporality(k)
}

//go:norace
func (e *mexp) Aggregation(k sdkmetric.InstrumentKind) sdkmetric.Aggregation {
	return e.inner.Aggregation(k)
}

//go:norace
func (e *mexp) Export(ctx context.Context, rm *metricdata.ResourceMetrics) error {
	e.exports = append(e.exports, e.w.sim.Stamp())
	return e.inner.Export(ctx, rm)
}

//go:norace
func (e *mexp) ForceFlush(ctx context.Context) error { return e.inner.ForceFlush(ctx) }

//go:norace
func (e *mexp) Shutdown(ctx context.Context) error {
	c := &call{inv: e.w.sim.Stamp(), task: e.w.sim.CurrentTask()}
	e.shutdowns = append(e.shutdowns, c)
	c.err = e.inner.Shutdown(ctx)
	c.ret = e.w.sim.Stamp()
	return c.err
}

//go:norace
func (w *world) metricScenario(plans [][]planOp) {
	r, sim := w.r, w.sim
	out := &stampedWriter{w: w}
	inner, _ := stdoutmetric.New(stdoutmetric.WithWriter(out))
	exp := &mexp{w: w, inner: inner, out: out}
	mr := sdkmetric.NewManualReader()
	pr := sdkmetric.NewPeriodicReader(exp, sdkmetric.WithInterval(time.Second), sdkmetric.WithTimeout(5*time.Second))
	mp := sdkmetric.NewMeterProvider(sdkmetric.WithReader(mr), sdkmetric.WithReader(pr))
	type addEv struct {
		inv, ret uint64
		fresh    bool
		value    int64
	}
	var adds []*addEv
	type collEv struct {
		inv, ret uint64
		err      error
		total    int64
	}
	var colls []*collEv
	counter0, _ := mp.Meter("before").Int64Counter("c")
	inflight := map[string]string{}
	for t, plan := range plans {
		plan := plan
		name := fmt.Sprintf("t%d", t)
		sim.Spawn(name, func() {
			for _, op := range plan {
				if op.sleep > 0 {
					simrt.Sleep(op.sleep, simdrv.PtSleep)
				}
				simrt.Yield(simdrv.PtOp)
				switch op.kind {
				case "meter", "add":
					ev := &addEv{inv: sim.Stamp(), fresh: op.kind == "meter", value: 1}
					adds = append(adds, ev)
					inflight[name] = "add"
					c := counter0
					if ev.fresh {
						m := mp.Meter(fmt.Sprintf("m%d", op.arg))
						// "after Shutdown has returned, providers hand out no-op ... meters" - whatever it
						// returned (after seeded change C15-g)
						if _, isNoop := m.(mnoop.Meter); !isNoop {
							for _, o := range w.ops {
								if o.Kind == "shutdown" && o.Ret != 0 && o.Ret < ev.inv {
									oc := "after-shutdown"
									if o.Err != nil {
										oc = "after-failed-shutdown"
									}
									r.Violate(prop, "live-meter-after-shutdown", "live-meter-after-shutdown/"+oc, "Meter() requested at %d, after MeterProvider.Shutdown returned (%v) at %d, is a %T, not a no-op meter", ev.inv, o.Err, o.Ret, m)
									break
								}
							}
						}
						c, _ = m.Int64Counter("c")
					}
					c.Add(context.Background(), 1)
					ev.ret = sim.Stamp()
					delete(inflight, name)
					r.Log("%d add fresh-meter=%v", ev.ret, ev.fresh)
				case "collect":
					ev := &collEv{inv: sim.Stamp()}
					colls = append(colls, ev)
					inflight[name] = "collect"
					var rm metricdata.ResourceMetrics
					ev.err = mr.Collect(context.Background(), &rm)
					for _, sm := range rm.ScopeMetrics {
						for _, m := range sm.Metrics {
							if s, ok := m.Data.(metricdata.Sum[int64]); ok {
								for _, dp := range s.DataPoints {
									ev.total += dp.Value
								}
							}
						}
					}
					ev.ret = sim.Stamp()
					delete(inflight, name)
					r.Log("%d collect err=%v total=%d", ev.ret, ev.err, ev.total)
				case "flush", "shutdown":
					ctx, cancel, ck := simdrv.MkCtx(op.ctxK, time.Second)
					if op.ctxK != 0 {
						r.Fault("caller-ctx-" + strings.SplitN(ck, "(", 2)[0])
					}
					if w.anyShutdownInvoked() {
						r.Fault(op.kind + "-after-or-during-shutdown")
					}
					o := &simdrv.OpCall{Kind: op.kind, Level: "mp", CtxKind: ck, Task: name, Inv: sim.Stamp()}
					w.ops = append(w.ops, o)
					inflight[name] = op.kind
					r.Log("%d %s-invoke ctx=%s", o.Inv, op.kind, ck)
					if op.kind == "flush" {
						o.Err = mp.ForceFlush(ctx)
					} else {
						o.Err = mp.Shutdown(ctx)
					}
					o.Ret = sim.Stamp()
					cancel()
					delete(inflight, name)
					r.Log("%d %s-return err=%v", o.Ret, op.kind, o.Err)
				}
				r.Res.Ops++
			}
		})
	}
	if !w.finish(func() []string {
		var out []string
		for _, v := range inflight {
			out = append(out, v)
		}
		return out
	}) {
		return
	}
	for _, o := range w.ops {
		if o.Kind == "shutdown" && o.Ret != 0 && len(exp.shutdowns) == 0 {
			r.Violate(prop, "never-shut-down", "never-shut-down/metric-exporter", "MeterProvider.Shutdown has returned (%v) but the periodic reader's exporter was never shut down", o.Err)
			break
		}
	}
	if len(exp.shutdowns) > 1 {
		r.Violate(prop, "shutdown-twice", "exporter-shutdown-twice/metric", "the periodic reader's exporter was shut down %d times", len(exp.shutdowns))
	}
	// nothing is handed to the exporter once its own Shutdown has returned - whatever the provider's Shutdown
	// returned: the periodic reader joins its run loop before it shuts the exporter down (after seeded change
	// C15-k, which stops waiting for the run loop when the caller's context is done)
	for _, sd := range exp.shutdowns {
		for _, at := range exp.exports {
			if sd.ret != 0 && at > sd.ret {
				r.Violate(prop, "export-after-shutdown", "export-after-exporter-shutdown/metric", "Export was called at %d on the periodic reader's exporter, whose Shutdown (invoked %d by %s) had returned at %d", at, sd.inv, sd.task, sd.ret)
			}
		}
	}
	for _, o := range w.ops {
		if o.Kind != "shutdown" || o.Ret == 0 {
			continue
		}
		oc := simdrv.ShutdownContext(w.ops, o)
		if o.Err == nil {
			if len(exp.shutdowns) == 0 || exp.shutdowns[0].ret == 0 || exp.shutdowns[0].ret > o.Ret {
				r.Violate(prop, "not-shut-down", "not-shut-down/metric-exporter/"+oc, "MeterProvider.Shutdown (invoked %d) returned nil at %d but the periodic reader's exporter has not been shut down", o.Inv, o.Ret)
			}
			for _, x := range w.lateWrites(out, o.Ret) {
				r.Violate(prop, "export-after-shutdown", "export-after-shutdown/metric/"+oc, "the stdout metric exporter wrote at %d (task %s), after MeterProvider.Shutdown (invoked %d) returned nil at %d", x.at, x.task, o.Inv, o.Ret)
			}
		}
		// after Shutdown has returned (with or without error the provider is stopped): fresh meters are no-ops
		for _, c := range colls {
			if c.inv > o.Ret && o.Err == nil && c.err == nil {
				r.Violate(prop, "collect-after-shutdown", "collect-after-shutdown", "ManualReader.Collect invoked at %d after Shutdown returned nil (at %d) succeeded instead of returning the documented shutdown error", c.inv, o.Ret)
			}
		}
	}
}

// ================= log =================

type lexp struct {
	w         *world
	inner     sdklog.Exporter
	shutdowns []*call
}

//go:norace
func (e *lexp) Export(ctx context.Context, rs []sdklog.Record) error { return e.inner.Export(ctx, rs) }

//go:norace
func (e *lexp) ForceFlush(ctx context.Context) error { return e.inner.ForceFlush(ctx) }

//go:norace
func (e *lexp) Shutdown(ctx context.Context) error {
	c := &call{inv: e.w.sim.Stamp(), task: e.w.sim.CurrentTask()}
	e.shutdowns = append(e.shutdowns, c)
	c.err = e.inner.Shutdown(ctx)
	c.ret = e.w.sim.Stamp()
	return c.err
}

//go:norace
func (w *world) logScenario(plans [][]planOp) {
	r, sim := w.r, w.sim
	var exps []*lexp
	var outs []*stampedWriter
	mkExp := func() sdklog.Exporter {
		out := &stampedWriter{w: w}
		inner, _ := stdoutlog.New(stdoutlog.WithWriter(out))
		e := &lexp{w: w, inner: inner}
		exps = append(exps, e)
		outs = append(outs, out)
		return e
	}
	var opts []sdklog.LoggerProviderOption
	shape := r.Cfg(4)
	r.Res.Config["log_shape"] = shape
	switch shape {
	case 0:
		opts = append(opts, sdklog.WithProcessor(sdklog.NewSimpleProcessor(mkExp())))
	case 1:
		opts = append(opts, sdklog.WithProcessor(sdklog.NewBatchProcessor(mkExp(), sdklog.WithExportInterval(time.Second), sdklog.WithMaxQueueSize(4), sdklog.WithExportMaxBatchSize(2))))
	case 2:
		opts = append(opts, sdklog.WithProcessor(sdklog.NewSimpleProcessor(nil)), sdklog.WithProcessor(sdklog.NewBatchProcessor(nil, sdklog.WithExportInterval(time.Second))))
	default:
		opts = append(opts, sdklog.WithProcessor(sdklog.NewSimpleProcessor(mkExp())), sdklog.WithProcessor(sdklog.NewBatchProcessor(mkExp(), sdklog.WithExportInterval(time.Second))))
	}
	lp := sdklog.NewLoggerProvider(opts...)
	logger0 := lp.Logger("before")
	inflight := map[string]string{}
	type emitEv struct {
		inv, ret uint64
		fresh    bool
	}
	var emits []*emitEv
	for t, plan := range plans {
		plan := plan
		name := fmt.Sprintf("t%d", t)
		sim.Spawn(name, func() {
			for _, op := range plan {
				if op.sleep > 0 {
					simrt.Sleep(op.sleep, simdrv.PtSleep)
				}
				simrt.Yield(simdrv.PtOp)
				switch op.kind {
				case "logger", "emit":
					ev := &emitEv{inv: sim.Stamp(), fresh: op.kind == "logger"}
					emits = append(emits, ev)
					tel := &telOp{task: name, inv: ev.inv}
					w.tel = append(w.tel, tel)
					inflight[name] = "emit"
					l := logger0
					if ev.fresh {
						l = lp.Logger(fmt.Sprintf("l%d", op.arg))
					}
					var rec log.Record
					rec.SetBody(log.StringValue("x"))
					l.Emit(context.Background(), rec)
					ev.ret = sim.Stamp()
					tel.ret = ev.ret
					delete(inflight, name)
					r.Log("%d emit fresh-logger=%v", ev.ret, ev.fresh)
				case "flush", "shutdown":
					ctx, cancel, ck := simdrv.MkCtx(op.ctxK, time.Second)
					if op.ctxK != 0 {
						r.Fault("caller-ctx-" + strings.SplitN(ck, "(", 2)[0])
					}
					if w.anyShutdownInvoked() {
						r.Fault(op.kind + "-after-or-during-shutdown")
					}
					o := &simdrv.OpCall{Kind: op.kind, Level: "lp", CtxKind: ck, Task: name, Inv: sim.Stamp()}
					w.ops = append(w.ops, o)
					inflight[name] = op.kind
					r.Log("%d %s-invoke ctx=%s", o.Inv, op.kind, ck)
					if op.kind == "flush" {
						o.Err = lp.ForceFlush(ctx)
					} else {
						o.Err = lp.Shutdown(ctx)
					}
					o.Ret = sim.Stamp()
					cancel()
					delete(inflight, name)
					r.Log("%d %s-return err=%v", o.Ret, op.kind, o.Err)
				}
				r.Res.Ops++
			}
		})
	}
	if !w.finish(func() []string {
		var out []string
		for _, v := range inflight {
			out = append(out, v)
		}
		return out
	}) {
		return
	}
	for _, o := range w.ops {
		if o.Kind != "shutdown" || o.Ret == 0 {
			continue
		}
		for i, e := range exps {
			if len(e.shutdowns) == 0 {
				r.Violate(prop, "never-shut-down", "never-shut-down/log-exporter", "LoggerProvider.Shutdown has returned (%v) but log exporter %d was never shut down", o.Err, i)
			}
		}
		break
	}
	for i, e := range exps {
		if len(e.shutdowns) > 1 {
			r.Violate(prop, "shutdown-twice", "exporter-shutdown-twice/log", "log exporter %d was shut down %d times", i, len(e.shutdowns))
		}
	}
	for _, o := range w.ops {
		if o.Kind != "shutdown" || o.Ret == 0 || o.Err != nil {
			continue
		}
		oc := simdrv.ShutdownContext(w.ops, o)
		for i, e := range exps {
			if len(e.shutdowns) == 0 || e.shutdowns[0].ret == 0 || e.shutdowns[0].ret > o.Ret {
				r.Violate(prop, "not-shut-down", "not-shut-down/log-exporter/"+oc, "LoggerProvider.Shutdown (invoked %d) returned nil at %d but log exporter %d has not been shut down", o.Inv, o.Ret, i)
			}
			for _, x := range w.lateWrites(outs[i], o.Ret) {
				r.Violate(prop, "export-after-shutdown", "export-after-shutdown/log/"+oc, "the stdout log exporter %d wrote at %d (task %s), after LoggerProvider.Shutdown (invoked %d) returned nil at %d", i, x.at, x.task, o.Inv, o.Ret)
			}
		}
		for _, o2 := range w.ops {
			if o2.Inv > o.Ret && o2.Ret != 0 && o2.Err != nil && o2.CtxKind == "background" {
				r.Violate(prop, "error-after-shutdown", "error-after-shutdown/"+o2.Kind, "%s invoked at %d after LoggerProvider.Shutdown returned nil (at %d) failed: %v", o2.Kind, o2.Inv, o.Ret, o2.Err)
			}
		}
	}
}
