// Engine logbatch: property C06 (log batch processor: once, in order, one export at a time).
package logbatch

import (
	"context"
	"fmt"
	"reflect"
	"sort"
	"strings"
	"sync"
	"testing"
	"time"

	"github.com/go-logr/logr"
	"github.com/go-logr/logr/funcr"

	"go.opentelemetry.io/otel"
	"go.opentelemetry.io/otel/log"
	sdklog "go.opentelemetry.io/otel/sdk/log"

	"verif/simdrv"
	"verif/simrt"
)

const prop = "C06"

type engine struct{}

//go:norace
func (engine) Name() string { return "logbatch" }

// RaceProps: a quarter of the workers run the race-detector build of this engine (DESIGN.md §2.11); a data
// race between two accesses of the code under test is reported under these properties.
//
//go:norace
func (engine) RaceProps() []string { return []string{"C06"} }

//go:norace
func TestWorker(t *testing.T) { simdrv.Worker(t, engine{}) }

type recInfo struct {
	big      bool // carries 6 more attributes, which live in the record's heap-allocated overflow slice
	id       string
	emitter  int
	seq      int
	emitInv  uint64
	emitRet  uint64
	exported int
	firstExp uint64
}

type exportCall struct {
	beg, end uint64
	ids      []string
}

type world struct {
	r   *simdrv.Run
	sim *simrt.Sim

	q, b, buf int
	interval  time.Duration
	expTO     time.Duration
	faulty    bool
	delays    []time.Duration

	recs    map[string]*recInfo
	order   []string
	exports []*exportCall
	ops     []*simdrv.OpCall

	inflight    int
	sdCalls     int
	loggedDrops uint64
	logMu       sync.Mutex
}

type exporter struct{ w *world }

//go:norace
func (x *exporter) Export(ctx context.Context, records []sdklog.Record) error {
	w := x.w
	c := &exportCall{beg: w.sim.Stamp()}
	for i := range records {
		rec := &records[i]
		id := rec.Body().AsString()
		c.ids = append(c.ids, id)
		ri := w.recs[id]
		if ri == nil {
			w.r.Violate(prop, "altered-record", "altered-record", "exported record has body %q which was never emitted (later mutation leaked into the export?)", id)
			continue
		}
		// content must be what was emitted, not the later mutations
		want := map[string]string{"seq": fmt.Sprint(ri.seq), "who": fmt.Sprintf("e%d", ri.emitter)}
		if ri.big {
			for k := 0; k < 6; k++ {
				want[fmt.Sprintf("x%d", k)] = "v"
			}
		}
		got := map[string]string{}
		n := 0
		rec.WalkAttributes(func(kv log.KeyValue) bool {
			n++
			got[kv.Key] = kv.Value.String()
			return true
		})
		same := n == len(want) && rec.Severity() == log.SeverityInfo
		for k, v := range want {
			if got[k] != v {
				same = false
			}
		}
		if !same {
			w.r.Violate(prop, "altered-record", "altered-record", "record %s exported with %d attrs %v severity=%v (emitted: %v severity=INFO)", id, n, got, rec.Severity(), want)
		}
		ri.exported++
		if ri.exported == 1 {
			ri.firstExp = c.beg
		} else {
			w.r.Violate(prop, "duplicate-export", "duplicate-export", "record %s exported %d times", id, ri.exported)
		}
		if ri.emitInv == 0 {
			w.r.Violate(prop, "not-emitted", "not-emitted", "record %s exported before it was emitted", id)
		}
	}
	w.exports = append(w.exports, c)
	w.r.Log("%d export-begin task=%s n=%d %v", c.beg, w.sim.CurrentTask(), len(c.ids), c.ids)
	if len(c.ids) > w.b {
		w.r.Violate(prop, "batch-too-large", "batch-too-large", "export of %d records > max batch %d", len(c.ids), w.b)
	}
	w.inflight++
	if w.inflight > 1 {
		w.r.Violate(prop, "concurrent-export", "concurrent-export", "Export invoked while another Export is running (stamp %d)", c.beg)
	}
	err := w.r.Behave(ctx, "export", w.faulty, w.delays)
	w.inflight--
	c.end = w.sim.Stamp()
	w.r.Log("%d export-end err=%v", c.end, err)
	return err
}

//go:norace
func (x *exporter) Shutdown(ctx context.Context) error {
	w := x.w
	w.sdCalls++
	w.r.Log("%d exporter-shutdown-begin task=%s", w.sim.Stamp(), w.sim.CurrentTask())
	err := w.r.Behave(ctx, "expshutdown", w.faulty, w.delays)
	w.r.Log("%d exporter-shutdown-end err=%v", w.sim.Stamp(), err)
	return err
}

//go:norace
func (x *exporter) ForceFlush(ctx context.Context) error {
	w := x.w
	w.r.Log("%d exporter-forceflush task=%s", w.sim.Stamp(), w.sim.CurrentTask())
	if w.faulty && w.sim.Draw(6) == 1 {
		w.r.Fault("expflush-error")
		return simdrv.ErrInjected
	}
	return nil
}

// mutator is a processor registered after the batch processor: it changes the SDK record it is given.
type mutator struct{}

//go:norace
func (mutator) OnEmit(_ context.Context, r *sdklog.Record) error {
	r.AddAttributes(log.String("x4", "MUT"), log.String("x5", "MUT"), log.String("who", "MUT")) // in-place overwrite of existing keys
	r.SetBody(log.StringValue("MUTATED-BY-NEXT-PROCESSOR"))
	r.SetSeverity(log.SeverityFatal)
	r.SetAttributes(log.String("mutated", "yes"))
	r.AddAttributes(log.Int("seq", -7), log.String("x1", "y"), log.String("x2", "y"), log.String("x3", "y"), log.String("x4", "y"), log.String("x5", "y"), log.String("x6", "y"))
	return nil
}

//go:norace
func (mutator) Shutdown(context.Context) error { return nil }

//go:norace
func (mutator) ForceFlush(context.Context) error { return nil }

type step struct {
	sleep time.Duration
	id    string
	seq   int
	big   bool
}

type opPlan struct {
	kind  string
	level string
	sleep time.Duration
	ctxK  int
	ctxD  time.Duration
}

//go:norace
func (engine) Body(r *simdrv.Run) {
	w := &world{r: r, recs: map[string]*recInfo{}}
	times := []time.Duration{time.Millisecond, 10 * time.Millisecond, time.Second, 5 * time.Second, 30 * time.Second}
	w.q = []int{1, 2, 2, 3, 4, 8, 16}[r.Cfg(7)]
	w.b = 1 + r.Cfg(w.q)
	w.buf = 1 + r.Cfg(3)
	w.interval = times[r.Cfg(len(times))]
	w.faulty = r.Cfg(3) != 0
	w.delays = []time.Duration{time.Millisecond, 100 * time.Millisecond, 3 * time.Second, 40 * time.Second}
	clamp := func(xs []time.Duration) []time.Duration {
		out := make([]time.Duration, len(xs))
		for i, x := range xs {
			out[i] = min(x, 100*w.interval)
		}
		return out
	}
	w.delays = clamp(w.delays)
	times = clamp(times)
	w.expTO = times[r.Cfg(len(times))]
	nEm := 1 + r.Cfg(4)
	emitters := make([][]step, nEm)
	total := 0
	for i := range emitters {
		n := 1 + r.Cfg(7)
		for j := 0; j < n; j++ {
			st := step{id: fmt.Sprintf("e%dr%d", i, j), seq: j, big: r.Cfg(2) == 1}
			if r.Cfg(4) == 1 {
				st.sleep = times[r.Cfg(len(times))]
			}
			emitters[i] = append(emitters[i], st)
			total++
		}
	}
	var plans []opPlan
	nFlush := r.Cfg(4)
	for i := 0; i < nFlush; i++ {
		p := opPlan{kind: "flush", level: []string{"bp", "bp", "lp"}[r.Cfg(3)], ctxK: []int{0, 0, 1, 2, 2}[r.Cfg(5)], ctxD: append(times, w.delays...)[r.Cfg(len(times)+len(w.delays))]}
		if r.Cfg(2) == 1 {
			p.sleep = times[r.Cfg(len(times))]
		}
		plans = append(plans, p)
	}
	nShut := []int{0, 1, 1, 1, 2}[r.Cfg(5)]
	for i := 0; i < nShut; i++ {
		p := opPlan{kind: "shutdown", level: []string{"bp", "bp", "lp"}[r.Cfg(3)], ctxK: []int{0, 0, 0, 1, 2, 2}[r.Cfg(6)], ctxD: append(times, w.delays...)[r.Cfg(len(times)+len(w.delays))]}
		if r.Cfg(3) != 0 {
			p.sleep = times[r.Cfg(len(times))]
		}
		plans = append(plans, p)
	}
	r.Res.Config["q"] = w.q
	r.Res.Config["b"] = w.b
	r.Res.Config["buffer"] = w.buf
	r.Res.Config["interval"] = w.interval.String()
	r.Res.Config["export_timeout"] = w.expTO.String()
	r.Res.Config["faulty"] = w.faulty
	r.Res.Config["emitters"] = fmt.Sprint(emitters)
	r.Res.Config["ops"] = fmt.Sprint(plans)

	var ts []time.Duration
	for _, T := range []time.Duration{w.interval, w.expTO} {
		ts = append(ts, time.Nanosecond, T/2, T-time.Nanosecond, T, T+time.Nanosecond, 2*T)
	}
	sim := r.Start(r.DrawSched(ts, 5000*w.interval, 30000))
	w.sim = sim

	otel.SetErrorHandler(otel.ErrorHandlerFunc(func(error) {}))
	// capture the "dropped log records" warning (the only place the drop count is reported)
	otel.SetLogger(funcr.New(func(prefix, args string) {
		if i := strings.Index(args, `"dropped"=`); i >= 0 && strings.Contains(args, "dropped log records") {
			var n uint64
			fmt.Sscanf(args[i+len(`"dropped"=`):], "%d", &n)
			w.loggedDrops += n
		}
	}, funcr.Options{Verbosity: 1}))
	defer otel.SetLogger(logr.Discard())

	exp := &exporter{w: w}
	bp := sdklog.NewBatchProcessor(exp, sdklog.WithMaxQueueSize(w.q), sdklog.WithExportMaxBatchSize(w.b),
		sdklog.WithExportInterval(w.interval), sdklog.WithExportTimeout(w.expTO), sdklog.WithExportBufferSize(w.buf))
	lp := sdklog.NewLoggerProvider(sdklog.WithProcessor(bp), sdklog.WithProcessor(mutator{}))
	logger := lp.Logger("logbatch")

	for i, steps := range emitters {
		i, steps := i, steps
		sim.Spawn(fmt.Sprintf("emitter%d", i), func() {
			for _, st := range steps {
				if st.sleep > 0 {
					simrt.Sleep(st.sleep, simdrv.PtSleep)
				}
				simrt.Yield(simdrv.PtOp)
				var rec log.Record
				rec.SetBody(log.StringValue(st.id))
				rec.SetSeverity(log.SeverityInfo)
				rec.AddAttributes(log.Int("seq", st.seq), log.String("who", fmt.Sprintf("e%d", i)))
				if st.big {
					for k := 0; k < 6; k++ {
						rec.AddAttributes(log.String(fmt.Sprintf("x%d", k), "v"))
					}
				}
				ri := &recInfo{id: st.id, emitter: i, seq: st.seq, big: st.big}
				w.recs[st.id] = ri
				w.order = append(w.order, st.id)
				ri.emitInv = sim.Stamp()
				r.Log("%d emit-invoke %s", ri.emitInv, st.id)
				logger.Emit(context.Background(), rec)
				ri.emitRet = sim.Stamp()
				r.Log("%d emit-return %s", ri.emitRet, st.id)
				// later changes to the caller's record must not reach the exporter
				rec.SetBody(log.StringValue("MUTATED-BY-CALLER"))
				rec.SetSeverity(log.SeverityError)
				rec.AddAttributes(log.Int("seq", -1), log.String("late", "x"))
				r.Res.Ops++
			}
		})
	}
	for i, p := range plans {
		p := p
		sim.Spawn(fmt.Sprintf("%s%d", p.kind, i), func() {
			if p.sleep > 0 {
				simrt.Sleep(p.sleep, simdrv.PtSleep)
			}
			simrt.Yield(simdrv.PtOp)
			ctx, cancel, ck := simdrv.MkCtx(p.ctxK, p.ctxD)
			defer cancel()
			op := &simdrv.OpCall{Kind: p.kind, Level: p.level, CtxKind: ck, Task: sim.CurrentTask()}
			w.ops = append(w.ops, op)
			op.Inv = sim.Stamp()
			r.Log("%d %s-invoke level=%s ctx=%s", op.Inv, p.kind, p.level, ck)
			var err error
			switch {
			case p.kind == "flush" && p.level == "bp":
				err = bp.ForceFlush(ctx)
			case p.kind == "flush":
				err = lp.ForceFlush(ctx)
			case p.level == "bp":
				err = bp.Shutdown(ctx)
			default:
				err = lp.Shutdown(ctx)
			}
			op.Err = err
			op.Ret = sim.Stamp()
			r.Log("%d %s-return err=%v", op.Ret, p.kind, err)
			r.Res.Ops++
		})
	}
	out := sim.Run()
	var pending []string
	for _, id := range w.order {
		if ri := w.recs[id]; ri.emitInv != 0 && ri.emitRet == 0 {
			pending = append(pending, "emit")
		}
	}
	for _, op := range w.ops {
		if op.Ret == 0 {
			pending = append(pending, op.Kind)
		}
	}
	if out.Kind == simrt.Done {
		sim.Settle(1500, 300*w.interval)
	}
	residual, haveResidual := readDropped(bp)
	r.Finish(out)
	r.Res.NonTrivial = sim.Switches > 0 && len(sim.TaskNames()) >= 2
	dropped := w.loggedDrops + residual
	r.Res.Config["dropped"] = dropped

	if r.Res.Outcome == "harness-panic" {
		return // the simulator lost track of the system: reported as harness trouble, never as a violation
	}
	switch out.Kind {
	case simrt.Budget:
		return
	case simrt.Fatal:
		r.Violate(prop, "panic", "panic", "%s", out.Detail)
		return
	case simrt.Deadlock:
		r.Violate(prop, "deadlock", "deadlock", "%s", out.Detail)
		return
	case simrt.Hang:
		for _, p := range pending {
			r.Violate(prop, "hang", "hang/"+p, "%s never returned: %s", p, out.Detail)
		}
		if len(pending) == 0 {
			r.Violate(prop, "hang", "hang/unknown", "%s", out.Detail)
		}
		return
	}
	w.oracle(dropped, haveResidual)
}

// readDropped reads the queue's not-yet-reported drop counter through reflection (no hook in /repo).
//
//go:norace
func readDropped(bp *sdklog.BatchProcessor) (uint64, bool) {
	v := reflect.ValueOf(bp).Elem().FieldByName("q")
	if !v.IsValid() || v.Kind() != reflect.Pointer || v.IsNil() {
		return 0, false
	}
	d := v.Elem().FieldByName("dropped")
	if !d.IsValid() {
		return 0, false
	}
	if d.Kind() == reflect.Struct {
		d = d.FieldByName("v")
	}
	if !d.IsValid() || !d.CanUint() {
		return 0, false
	}
	return d.Uint(), true
}

//go:norace
func (w *world) oracle(dropped uint64, haveDropped bool) {
	r := w.r
	firstSd := simdrv.FirstShutdownInv(w.ops)
	sort.Slice(w.ops, func(i, j int) bool { return w.ops[i].Inv < w.ops[j].Inv })
	// per-emitter order of export
	last := map[int]int{}
	lastRec := map[int]*recInfo{}
	for _, e := range w.exports {
		for _, id := range e.ids {
			ri := w.recs[id]
			if ri == nil {
				continue
			}
			prev, ok := last[ri.emitter]
			if ok && ri.seq < prev {
				// context for the signature: was a Shutdown in progress between the emission of the
				// overtaken record and this export? (Shutdown empties the queue and hands the records
				// to the export buffer in two steps, outside the queue lock)
				ctx := "plain"
				for _, op := range w.ops {
					if op.Kind == "shutdown" && op.Inv < e.beg && (op.Ret == 0 || op.Ret > ri.emitInv) {
						ctx = "shutdown-in-progress"
					}
				}
				r.Violate(prop, "out-of-order", "out-of-order/"+ctx, "emitter e%d: record seq %d (emitted %d..%d) exported at %d after seq %d (emitted %d..%d)", ri.emitter, ri.seq, ri.emitInv, ri.emitRet, e.beg, prev, lastRec[ri.emitter].emitInv, lastRec[ri.emitter].emitRet)
			}
			if !ok || ri.seq > prev {
				last[ri.emitter] = ri.seq
				lastRec[ri.emitter] = ri
			}
		}
	}
	neverExported := 0
	emitted := 0
	for _, id := range w.order {
		ri := w.recs[id]
		if ri.emitRet != 0 {
			emitted++
			if ri.exported == 0 {
				neverExported++
			}
		}
	}
	missing := map[string]string{}
	for _, op := range w.ops {
		if op.Ret == 0 || op.Err != nil {
			continue
		}
		oc := simdrv.ShutdownContext(w.ops, op)
		for _, id := range w.order {
			ri := w.recs[id]
			if ri.emitRet == 0 || ri.emitRet >= op.Inv {
				continue
			}
			if firstSd != 0 && ri.emitRet >= firstSd {
				continue // emitted while or after a Shutdown was invoked
			}
			if ri.exported > 0 && ri.firstExp < op.Ret {
				continue
			}
			sig := fmt.Sprintf("%s-%s/%s", op.Kind, op.Level, oc)
			if ri.exported > 0 {
				r.Violate(prop, "not-exported-at-return", "not-exported-at-return/"+sig,
					"record %s (Emit returned at %d) was passed to the exporter only at %d, after %s (invoked %d) returned nil at %d", id, ri.emitRet, ri.firstExp, op.Kind, op.Inv, op.Ret)
				continue
			}
			// never exported: excusable only as an overwritten oldest record. Necessary condition: at
			// least q other records can have been enqueued after it.
			later := 0
			for _, id2 := range w.order {
				x := w.recs[id2]
				if x != ri && (x.emitRet == 0 || x.emitRet > ri.emitInv) {
					later++
				}
			}
			if later < w.q {
				r.Violate(prop, "lost-record", "lost-record/cannot-be-overwritten/"+sig,
					"record %s (Emit returned at %d) never reached the exporter although %s (invoked %d) returned nil at %d and only %d record(s) were emitted after it (queue size %d)", id, ri.emitRet, op.Kind, op.Inv, op.Ret, later, w.q)
				continue
			}
			if old, ok := missing[id]; !ok || (!strings.HasSuffix(old, "/plain") && strings.HasSuffix(sig, "/plain")) {
				missing[id] = sig
			}
		}
	}
	if haveDropped {
		// Records missing at an operation in a plain context must be covered by the overwrite count on
		// their own; records missing only at operations that overlap / follow an unfinished Shutdown
		// are accounted separately so that a known finding cannot mask (or be blamed for) the former.
		var plainIDs, allIDs []string
		plainSig, otherSig := "", ""
		for id, sg := range missing {
			allIDs = append(allIDs, id)
			if strings.HasSuffix(sg, "/plain") || strings.HasSuffix(sg, "/after-shutdown") {
				plainIDs = append(plainIDs, id)
				if sg > plainSig {
					plainSig = sg
				}
			} else if sg > otherSig {
				otherSig = sg
			}
		}
		sort.Strings(plainIDs)
		sort.Strings(allIDs)
		if len(plainIDs) > int(dropped) {
			r.Violate(prop, "lost-record", "lost-record/uncounted/"+plainSig,
				"%d record(s) %v emitted before a successful flush/shutdown never reached the exporter but only %d overwritten record(s) were counted", len(plainIDs), plainIDs, dropped)
		} else if len(allIDs) > int(dropped) {
			r.Violate(prop, "lost-record", "lost-record/uncounted/"+otherSig,
				"%d record(s) %v emitted before a successful flush/shutdown never reached the exporter but only %d overwritten record(s) were counted", len(allIDs), allIDs, dropped)
		}
		if int(dropped) > neverExported+w.pendingEmits() {
			r.Violate(prop, "overcounted-drop", "overcounted-drop", "drop count %d exceeds the %d emitted records that never reached the exporter", dropped, neverExported)
		}
		if dropped > 0 && emitted+w.pendingEmits() <= w.q {
			r.Violate(prop, "spurious-drop", "spurious-drop", "%d record(s) counted as dropped although only %d records were ever emitted into a queue of %d", dropped, emitted, w.q)
		}
		if dropped > 0 {
			r.Probe("queue-overflow")
		}
	}
	for _, op := range w.ops {
		if op.Kind != "shutdown" || op.Ret == 0 || op.Err != nil {
			continue
		}
		for _, e := range w.exports {
			if e.beg > op.Ret {
				r.Violate(prop, "export-after-shutdown", fmt.Sprintf("export-after-shutdown/%s/%s", op.Level, simdrv.ShutdownContext(w.ops, op)),
					"Export %v began at %d after Shutdown (invoked %d) returned nil at %d", e.ids, e.beg, op.Inv, op.Ret)
			}
		}
	}
	if len(w.exports) > 1 {
		r.Probe("multi-export")
	}
	if w.sdCalls > 1 {
		r.Probe("exporter-shutdown-twice")
	}
}

//go:norace
func (w *world) pendingEmits() int {
	n := 0
	for _, id := range w.order {
		if ri := w.recs[id]; ri.emitInv != 0 && ri.emitRet == 0 {
			n++
		}
	}
	return n
}
