// Engine metricsim: properties C02 (sum conservation under concurrency), C08 (delta vs cumulative
// across collections) and C12 (cardinality limits and view filters conserve measurements).
package metricsim

import (
	"context"
	"fmt"
	"math"
	"os"
	"sort"
	"strings"
	"sync"
	"testing"
	"time"

	"go.opentelemetry.io/otel"
	"go.opentelemetry.io/otel/attribute"
	"go.opentelemetry.io/otel/metric"
	sdkmetric "go.opentelemetry.io/otel/sdk/metric"
	"go.opentelemetry.io/otel/sdk/metric/metricdata"

	"verif/simdrv"
	"verif/simrt"
)

type engine struct{}

//go:norace
func (engine) Name() string { return "metricsim" }

// RaceProps: a quarter of the workers run the race-detector build of this engine (DESIGN.md §2.11); a data
// race between two accesses of the code under test is reported under these properties.
//
//go:norace
func (engine) RaceProps() []string { return []string{"C02"} }

//go:norace
func TestWorker(t *testing.T) { simdrv.Worker(t, engine{}) }

const overflowKey = "otel.metric.overflow=true"

// ---------- workload description ----------

type instKind int

const (
	kCounterI instKind = iota
	kCounterF
	kUpDownI
	kHistI
	kGaugeI
	kHistExpF
	kObsCounter
	kObsUpDown
	kObsGauge
	kObsCounterF // float64 observable counter whose callback is given at creation (WithFloat64Callback)
	// int64 counter of a second instrumentation scope that nobody creates up front: every recorder task
	// requests the scope's meter and the instrument when it first needs them and keeps its own handle, so
	// that first-time creation of one instrument (and of one meter) happens concurrently and the pipelines
	// hold two scopes (after seeded changes C02-i and C12-i)
	kCounterLate
	// a second explicit-bucket histogram with the same boundaries, created right after the first one: when an
	// earlier instrument of the scope starts reporting, each of the two moves into the slot of a reused
	// ResourceMetrics that the other one filled in the previous collection (after seeded change C08-j)
	kHistJ
)

//go:norace
func (k instKind) String() string {
	return [...]string{"counter_i", "counter_f", "updown_i", "hist_i", "gauge_i", "hist_exp", "obs_counter", "obs_updown", "obs_gauge", "obs_counter_f", "counter_late", "lat_j"}[k]
}

//go:norace
func (k instKind) isSum() bool {
	return k == kCounterI || k == kCounterF || k == kUpDownI || k == kCounterLate
}

//go:norace
func (k instKind) isAsync() bool { return k >= kObsCounter && k <= kObsCounterF }

// stream is what one view makes of an instrument.
type stream struct {
	name    string
	keep    []string // attribute keys kept by the view's filter (nil: all)
	dropped bool
}

type inst struct {
	idx     int
	kind    instKind
	name    string
	streams []stream
	nextBit int
	asSum   bool // a view re-aggregates this (histogram) instrument as a sum
}

// sumLike: the instrument's streams are sums whose values decode to sets of measurements.
//
//go:norace
func (in *inst) sumLike() bool { return in.kind.isSum() || in.asSum }

type attrSet struct{ a, b int } // a in -1..2 (-1: absent), b in -1..1

//go:norace
func (s attrSet) kvs() []attribute.KeyValue {
	var out []attribute.KeyValue
	if s.a >= 0 {
		out = append(out, attribute.Int("a", s.a))
	}
	if s.b >= 0 {
		out = append(out, attribute.Int("b", s.b))
	}
	return out
}

//go:norace
func (s attrSet) key(keep []string) string {
	var parts []string
	has := func(k string) bool {
		if keep == nil {
			return true
		}
		for _, x := range keep {
			if x == k {
				return true
			}
		}
		return false
	}
	if s.a >= 0 && has("a") {
		parts = append(parts, fmt.Sprintf("a=%d", s.a))
	}
	if s.b >= 0 && has("b") {
		parts = append(parts, fmt.Sprintf("b=%d", s.b))
	}
	return strings.Join(parts, ",")
}

//go:norace
func setKeyOf(set attribute.Set) string {
	var parts []string
	it := set.Iter()
	for it.Next() {
		kv := it.Attribute()
		parts = append(parts, fmt.Sprintf("%s=%s", kv.Key, kv.Value.Emit()))
	}
	return strings.Join(parts, ",")
}

// recOp is one synchronous measurement.
type recOp struct {
	inst     int
	set      attrSet
	bit      int  // value = 2^bit (up-down negatives: -(2^(30+bit)))
	neg      bool // up-down counter subtraction
	gaugeVal int64
	fval     float64   // exponential histogram measurement
	burst    []float64 // exponential histogram: further values recorded into the same set by the same operation
	zero     bool      // a measurement of value 0 on a sum instrument: it names no bit, but its attribute set exists from now on
	task     string
	inv, ret uint64
	sleep    time.Duration
}

//go:norace
func (o *recOp) value() int64 {
	if o.zero {
		return 0
	}
	if o.neg {
		return -(int64(1) << (30 + o.bit))
	}
	return int64(1) << o.bit
}

type collOp struct {
	kind  string // D | C | joint | flush | sleep
	sleep time.Duration
	ctxK  int
}

// point is one collected data point, normalised.
type point struct {
	sum      float64 // sum value (sums, histogram sum) or gauge value
	isInt    bool
	ival     int64
	count    uint64
	buckets  []uint64
	bounds   []float64
	min, max float64
	hasMin   bool
	start    time.Time
	time     time.Time
	temporal string
	mono     bool
	kind     string // sum | hist | gauge | exphist
	scale    int32
	posOff   int32
	pos      []uint64
	negN     uint64
	zero     uint64
}

type collection struct {
	reader   string // D | C | P
	idx      int    // per-reader sequence number
	joint    int    // joint point number (0: not joint)
	inv, ret uint64
	err      error
	how      string // collect | interval | flush | shutdown (periodic)
	data     map[string]map[string]point
	// async observations made by callbacks during this collection: inst -> setKey -> value
	observed map[int]map[string]int64
	cycle    int
}

type world struct {
	r   *simdrv.Run
	sim *simrt.Sim

	insts []*inst
	recs  []*recOp
	zeros []*recOp // zero-valued measurements on sum instruments
	// periodic reader: configured export timeout; (simulated) instant at which the previous export ended
	perTimeout time.Duration
	perLastEnd time.Time
	colls      []*collection
	nColl      map[string]int
	limit      int
	faulty     bool
	delays     []time.Duration
	gate       sync.RWMutex // harness gate: measurements hold it shared, a joint collection exclusively
	cycle      int          // joint point counter (async callback values depend on it)
	jointN     int
	curColl    map[string]*collection // collecting task -> its collection record
	regs       map[int]bool           // async instrument -> callback currently registered
	regHist    []regEv
	perLast    uint64 // stamp of the previous periodic export begin (or reader creation)
	perCur     *collection
	perTemp    metricdata.Temporality
	ops        []*simdrv.OpCall
	bounds     []float64
	interval   time.Duration
	// float64 instead of int64 variants of the up-down counter, explicit histogram, gauge, observable up-down counter + gauge
	fUpDown, fHist, fGauge, fObs bool
	lazy                         bool // no instrument is created before the tasks start (and no observable ones at all)
}

type regEv struct {
	inst     int
	on       bool
	inv, ret uint64
}

// ---------- periodic reader exporter stub ----------

type exporter struct{ w *world }

//go:norace
func (x *exporter) Temporality(sdkmetric.InstrumentKind) metricdata.Temporality { return x.w.perTemp }

//go:norace
func (x *exporter) Aggregation(k sdkmetric.InstrumentKind) sdkmetric.Aggregation {
	return sdkmetric.DefaultAggregationSelector(k)
}

//go:norace
func (x *exporter) Export(ctx context.Context, rm *metricdata.ResourceMetrics) error {
	w := x.w
	c := &collection{reader: "P", inv: w.perLast, ret: w.sim.Stamp(), how: "export", data: extract(rm), cycle: w.cycle}
	if cur := w.curColl[w.sim.CurrentTask()]; cur != nil && cur.reader == "P" {
		c.observed = cur.observed
		delete(w.curColl, w.sim.CurrentTask())
	}
	w.perLast = c.ret
	w.nColl["P"]++
	c.idx = w.nColl["P"]
	w.colls = append(w.colls, c)
	w.r.Log("%d periodic-export #%d task=%s %s", c.ret, c.idx, w.sim.CurrentTask(), summarize(c.data))
	// An export driven by the reader's own ticker runs under the configured export timeout, counted from the
	// start of its collection, which cannot lie before the end of the previous export: a deadline earlier
	// than (end of previous export + timeout) cuts a slow but timely export short, and what it carried is
	// lost (after seeded change C02-f).
	if strings.HasPrefix(w.sim.CurrentTask(), "go@") {
		if dl, ok := ctx.Deadline(); !ok || dl.Before(w.perLastEnd.Add(w.perTimeout)) {
			w.r.Violate("C02", "export-deadline-early", "export-deadline-early", "interval export #%d: the context's deadline is %v after the end of the previous export, the configured export timeout is %v (interval %v)", c.idx, dl.Sub(w.perLastEnd), w.perTimeout, w.interval)
		}
	}
	defer func() { w.perLastEnd = time.Now() }()
	return w.r.Behave(ctx, "metric-export", w.faulty, w.delays)
}

//go:norace
func (x *exporter) ForceFlush(context.Context) error { return nil }

//go:norace
func (x *exporter) Shutdown(ctx context.Context) error {
	x.w.r.Log("%d exporter-shutdown", x.w.sim.Stamp())
	return nil
}

// ---------- extraction ----------

//go:norace
func extract(rm *metricdata.ResourceMetrics) map[string]map[string]point {
	out := map[string]map[string]point{}
	for _, sm := range rm.ScopeMetrics {
		for _, m := range sm.Metrics {
			pts := out[m.Name]
			if pts == nil {
				pts = map[string]point{}
				out[m.Name] = pts
			}
			put := func(k string, p point) {
				if _, dup := pts[k]; dup {
					k = k + "#DUP" // the same attribute set twice in one metric: kept visible for the oracle
				}
				pts[k] = p
			}
			switch d := m.Data.(type) {
			case metricdata.Sum[int64]:
				for _, dp := range d.DataPoints {
					put(setKeyOf(dp.Attributes), point{kind: "sum", isInt: true, ival: dp.Value, sum: float64(dp.Value), start: dp.StartTime, time: dp.Time, temporal: d.Temporality.String(), mono: d.IsMonotonic})
				}
			case metricdata.Sum[float64]:
				for _, dp := range d.DataPoints {
					put(setKeyOf(dp.Attributes), point{kind: "sum", sum: dp.Value, ival: int64(dp.Value), start: dp.StartTime, time: dp.Time, temporal: d.Temporality.String(), mono: d.IsMonotonic})
				}
			case metricdata.Gauge[int64]:
				for _, dp := range d.DataPoints {
					put(setKeyOf(dp.Attributes), point{kind: "gauge", isInt: true, ival: dp.Value, sum: float64(dp.Value), start: dp.StartTime, time: dp.Time})
				}
			case metricdata.Gauge[float64]:
				for _, dp := range d.DataPoints {
					put(setKeyOf(dp.Attributes), point{kind: "gauge", ival: int64(dp.Value), sum: dp.Value, start: dp.StartTime, time: dp.Time})
				}
			case metricdata.Histogram[float64]:
				for _, dp := range d.DataPoints {
					p := point{kind: "hist", ival: int64(dp.Sum), sum: dp.Sum, count: dp.Count, buckets: append([]uint64{}, dp.BucketCounts...), bounds: append([]float64{}, dp.Bounds...), start: dp.StartTime, time: dp.Time, temporal: d.Temporality.String()}
					if v, ok := dp.Min.Value(); ok {
						p.min, p.hasMin = v, true
					}
					if v, ok := dp.Max.Value(); ok {
						p.max = v
					}
					put(setKeyOf(dp.Attributes), p)
				}
			case metricdata.Histogram[int64]:
				for _, dp := range d.DataPoints {
					p := point{kind: "hist", isInt: true, ival: dp.Sum, sum: float64(dp.Sum), count: dp.Count, buckets: append([]uint64{}, dp.BucketCounts...), bounds: append([]float64{}, dp.Bounds...), start: dp.StartTime, time: dp.Time, temporal: d.Temporality.String()}
					if v, ok := dp.Min.Value(); ok {
						p.min, p.hasMin = float64(v), true
					}
					if v, ok := dp.Max.Value(); ok {
						p.max = float64(v)
					}
					put(setKeyOf(dp.Attributes), p)
				}
			case metricdata.ExponentialHistogram[float64]:
				for _, dp := range d.DataPoints {
					p := point{kind: "exphist", sum: dp.Sum, count: dp.Count, scale: dp.Scale, zero: dp.ZeroCount, posOff: dp.PositiveBucket.Offset,
						pos: append([]uint64{}, dp.PositiveBucket.Counts...), start: dp.StartTime, time: dp.Time, temporal: d.Temporality.String()}
					for _, c := range dp.NegativeBucket.Counts {
						p.negN += c
					}
					if v, ok := dp.Min.Value(); ok {
						p.min, p.hasMin = v, true
					}
					if v, ok := dp.Max.Value(); ok {
						p.max = v
					}
					put(setKeyOf(dp.Attributes), p)
				}
			default:
				put("?unsupported", point{kind: fmt.Sprintf("%T", d)})
			}
		}
	}
	return out
}

//go:norace
func summarize(d map[string]map[string]point) string {
	var names []string
	for n := range d {
		names = append(names, n)
	}
	sort.Strings(names)
	var b strings.Builder
	for _, n := range names {
		var ks []string
		for k := range d[n] {
			ks = append(ks, k)
		}
		sort.Strings(ks)
		fmt.Fprintf(&b, "%s{", n)
		for _, k := range ks {
			p := d[n][k]
			if p.kind == "exphist" {
				fmt.Fprintf(&b, "[%s]:n=%d,sum=%v,scale=%d,off=%d,pos=%v ", k, p.count, p.sum, p.scale, p.posOff, p.pos)
			} else if p.kind == "hist" {
				fmt.Fprintf(&b, "[%s]:n=%d,sum=%d ", k, p.count, p.ival)
			} else {
				fmt.Fprintf(&b, "[%s]:%d ", k, p.ival)
			}
		}
		b.WriteString("} ")
	}
	return b.String()
}

// asyncValue is the value an async instrument observes for a set in a given cycle, and whether it
// observes the set at all in that cycle (sets appear and disappear).
//
//go:norace
func asyncValue(in *inst, s attrSet, cycle int) (int64, bool) {
	h := (in.idx*31 + s.a*7 + s.b*3 + cycle*5) % 4
	if h == 0 {
		return 0, false
	}
	switch in.kind {
	case kObsCounter, kObsCounterF:
		return int64(100*(cycle+1) + 10*s.a + s.b + 1), true
	case kObsUpDown:
		return int64(50 + (cycle%3)*20 - 7*s.a + s.b), true
	default:
		return int64(1000 + cycle*13 + s.a*3 + s.b), true
	}
}

var asyncSets = []attrSet{{0, -1}, {1, -1}, {2, 0}}

// ---------- engine body ----------

//go:norace
func (engine) Body(r *simdrv.Run) {
	w := &world{r: r, nColl: map[string]int{}, curColl: map[string]*collection{}, regs: map[int]bool{}}
	times := []time.Duration{time.Millisecond, 10 * time.Millisecond, time.Second, 5 * time.Second}
	w.faulty = r.Cfg(3) == 0
	w.delays = []time.Duration{time.Millisecond, 100 * time.Millisecond, 2 * time.Second}
	w.limit = []int{0, 0, 1, 2, 3, 5}[r.Cfg(6)]
	usePeriodic := r.Cfg(2) == 1
	w.interval = times[1+r.Cfg(3)]
	perTimeout := times[r.Cfg(len(times))]
	if usePeriodic {
		// with a periodic timer in the system every scripted wait is clamped to 100 periods, so that the
		// run stays within its step budget and its idle budget (3000 periods); without one the idle
		// budget is generous instead (scripted sleeps alone add up to tens of seconds)
		for i := range times {
			times[i] = min(times[i], 100*w.interval)
		}
		for i := range w.delays {
			w.delays[i] = min(w.delays[i], 100*w.interval)
		}
	}
	w.perTemp = []metricdata.Temporality{metricdata.DeltaTemporality, metricdata.CumulativeTemporality}[r.Cfg(2)]
	viewMode := r.Cfg(10) // 9: an incompatible view and a filtering view that yield the same stream identity; 8: a view asking for an aggregation the instrument cannot have next to a valid renaming view, 7: wildcard name + kind criterion (filter on up-down counters only), 5: drop view in front of a keeping view on one instrument, 6: three views of which two non-adjacent ones yield the same stream; 0 none, 1 filter on counter_i, 2 rename counter_f + drop hist, 3 two views on updown, 4 histogram re-aggregated as a (renamed) sum
	w.bounds = []float64{1, 4, 16, 256, 65536}

	// instruments
	kinds := []instKind{kCounterI, kCounterF, kUpDownI, kHistI, kGaugeI, kHistExpF, kObsCounter, kObsUpDown, kObsGauge, kObsCounterF, kCounterLate, kHistJ}
	expMaxSize := []int32{4, 4, 8, 160}[r.Cfg(4)]
	expMaxScale := []int32{0, 3, 20}[r.Cfg(3)]
	for i, k := range kinds {
		in := &inst{idx: i, kind: k, name: k.String()}
		in.streams = []stream{{name: in.name}}
		switch {
		case viewMode == 1 && k == kCounterI:
			in.streams = []stream{{name: in.name, keep: []string{"a"}}}
		case viewMode == 2 && k == kCounterF:
			in.streams = []stream{{name: "renamed_counter_f"}}
		case viewMode == 2 && k == kHistI:
			in.streams = []stream{{name: in.name, dropped: true}}
		case viewMode == 5 && k == kHistI:
			in.streams = []stream{{name: "hist_kept"}}
			in.asSum = true
		case viewMode == 6 && k == kCounterI:
			in.streams = []stream{{name: "counter_i"}, {name: "counter_i_renamed"}}
		case viewMode == 4 && k == kHistI:
			in.streams = []stream{{name: "hist_as_sum"}}
			in.asSum = true
		case viewMode == 3 && k == kUpDownI:
			in.streams = []stream{{name: "updown_by_a", keep: []string{"a"}}, {name: "updown_all"}}
		case viewMode == 8 && k == kCounterF:
			in.streams = []stream{{name: "renamed_counter_f"}}
		case viewMode == 9 && k == kCounterF:
			in.streams = []stream{{name: in.name, keep: []string{"a"}}}
		case viewMode == 7 && k == kUpDownI:
			in.streams = []stream{{name: in.name, keep: []string{"a"}}}
		}
		w.insts = append(w.insts, in)
	}
	w.fUpDown, w.fHist, w.fGauge, w.fObs = r.Cfg(2) == 1, r.Cfg(2) == 1, r.Cfg(2) == 1, r.Cfg(2) == 1
	w.lazy = r.Cfg(4) == 0
	r.Res.Config["float-variants"] = fmt.Sprintf("updown=%v hist=%v gauge=%v obs=%v", w.fUpDown, w.fHist, w.fGauge, w.fObs)
	syncInsts := []int{0, 1, 2, 3, 4, 5, 5, 11}
	if r.Cfg(2) == 1 {
		syncInsts = []int{0, 1, 2, 3, 4, 5, 5, 11, 10, 10, 10}
	}
	// recorder plans
	nRec := 1 + r.Cfg(4)
	recPlans := make([][]*recOp, nRec)
	for t := range recPlans {
		n := 2 + r.Cfg(8)
		for i := 0; i < n; i++ {
			in := w.insts[syncInsts[r.Cfg(len(syncInsts))]]
			op := &recOp{inst: in.idx, set: attrSet{a: r.Cfg(4) - 1, b: r.Cfg(3) - 1}, task: fmt.Sprintf("rec%d", t)}
			if in.nextBit >= 28 || w.fUpDown && in.kind == kUpDownI && in.nextBit >= 11 {
				continue // (a float64 sum of +2^0..2^10 and -2^30..-2^40 is exact)
			}
			if w.limit == 0 && in.sumLike() && in.kind != kHistI && r.Cfg(10) == 0 {
				// Add(0): kept apart from the bit-coded measurements (after seeded change C02-e)
				op.zero = true
				recPlans[t] = append(recPlans[t], op)
				w.zeros = append(w.zeros, op)
				continue
			}
			op.bit = in.nextBit
			in.nextBit++
			if in.kind == kUpDownI && r.Cfg(3) == 0 {
				op.neg = true
			}
			if in.kind == kGaugeI {
				op.gaugeVal = int64(1000*(t+1) + i)
			}
			if in.kind == kHistExpF {
				// values spread over a wide and jumpy range, so that points fill, downscale and regrow
				e := []int{0, 1, 2, 3, 7, -4, 11, 5, -9, 16}[r.Cfg(10)]
				op.fval = []float64{1, 1.5, 1.25}[r.Cfg(3)] * math.Pow(2, float64(e))
				if r.Cfg(12) == 0 {
					op.fval = 0
				}
				if r.Cfg(3) == 0 {
					// a burst: several values into one data point, so that it fills, downscales and regrows
					// within one collection cycle (after seeded change C12-e)
					for j, n := 0, 2+r.Cfg(5); j < n; j++ {
						e := []int{0, 1, 2, 3, 7, -4, 11, 5, -9, 16, 4, 6}[r.Cfg(12)]
						op.burst = append(op.burst, []float64{1, 1.5, 1.25, 1.75}[r.Cfg(4)]*math.Pow(2, float64(e)))
					}
				}
			}
			if r.Cfg(5) == 0 {
				op.sleep = times[r.Cfg(len(times))]
			}
			recPlans[t] = append(recPlans[t], op)
			w.recs = append(w.recs, op)
		}
	}
	// collector plans
	nCol := 1 + r.Cfg(2)
	colPlans := make([][]collOp, nCol)
	for t := range colPlans {
		n := 1 + r.Cfg(6)
		for i := 0; i < n; i++ {
			op := collOp{kind: []string{"D", "C", "joint", "joint", "flush"}[r.Cfg(5)], ctxK: []int{0, 0, 0, 1}[r.Cfg(4)]}
			if r.Cfg(2) == 0 {
				op.sleep = times[r.Cfg(len(times))]
			}
			colPlans[t] = append(colPlans[t], op)
		}
	}
	// callback (un)registration plan
	type regOp struct {
		inst  int
		on    bool
		sleep time.Duration
	}
	var regPlan []regOp
	if r.Cfg(2) == 1 {
		n := 1 + r.Cfg(4)
		for i := 0; i < n; i++ {
			regPlan = append(regPlan, regOp{inst: 6 + r.Cfg(3), on: r.Cfg(2) == 1, sleep: times[r.Cfg(len(times))]})
		}
	}
	if w.lazy {
		regPlan = nil
	}
	r.Res.Config["lazy_instruments"] = w.lazy
	r.Res.Config["exp_hist"] = fmt.Sprintf("max_size=%d max_scale=%d", expMaxSize, expMaxScale)
	r.Res.Config["limit"] = w.limit
	r.Res.Config["view_mode"] = viewMode
	r.Res.Config["periodic"] = fmt.Sprintf("%v interval=%v timeout=%v temporality=%v", usePeriodic, w.interval, perTimeout, w.perTemp)
	r.Res.Config["faulty"] = w.faulty
	r.Res.Config["recorders"] = fmt.Sprint(len(recPlans))
	r.Res.Config["collectors"] = fmt.Sprintf("%+v", colPlans)
	r.Res.Config["reg_plan"] = fmt.Sprintf("%+v", regPlan)

	var ts []time.Duration
	for _, T := range []time.Duration{w.interval, perTimeout} {
		ts = append(ts, time.Nanosecond, T/2, T-time.Nanosecond, T, T+time.Nanosecond, 2*T)
	}
	maxIdle := 3000 * w.interval
	if !usePeriodic {
		maxIdle = 2 * time.Hour
	}
	sim := r.Start(r.DrawSched(ts, maxIdle, 30000))
	w.sim = sim
	otel.SetErrorHandler(otel.ErrorHandlerFunc(func(error) {}))
	if w.limit > 0 {
		os.Setenv("OTEL_GO_X_CARDINALITY_LIMIT", fmt.Sprint(w.limit))
	} else {
		os.Unsetenv("OTEL_GO_X_CARDINALITY_LIMIT")
	}
	defer os.Unsetenv("OTEL_GO_X_CARDINALITY_LIMIT")

	// provider with a delta and a cumulative manual reader (+ optional periodic reader)
	deltaSel := func(sdkmetric.InstrumentKind) metricdata.Temporality { return metricdata.DeltaTemporality }
	rd := sdkmetric.NewManualReader(sdkmetric.WithTemporalitySelector(deltaSel))
	rc := sdkmetric.NewManualReader()
	opts := []sdkmetric.Option{sdkmetric.WithReader(rd), sdkmetric.WithReader(rc)}
	if r.Cfg(4) == 0 {
		// a misconfigured reader registered in front of the two that are read: its aggregation selector asks
		// for a last-value aggregation of counters and histograms, which the SDK rejects at instrument
		// creation - for that reader only; the other readers must still receive every measurement
		// (after seeded change C02-d)
		bad := sdkmetric.NewManualReader(sdkmetric.WithAggregationSelector(func(k sdkmetric.InstrumentKind) sdkmetric.Aggregation {
			switch k {
			case sdkmetric.InstrumentKindCounter, sdkmetric.InstrumentKindHistogram, sdkmetric.InstrumentKindUpDownCounter:
				return sdkmetric.AggregationLastValue{}
			case sdkmetric.InstrumentKindObservableCounter, sdkmetric.InstrumentKindObservableUpDownCounter, sdkmetric.InstrumentKindObservableGauge:
				// ... and drops the observable kinds, which is legal and concerns this reader alone: the other
				// readers still get every observation (after seeded change C08-h)
				return sdkmetric.AggregationDrop{}
			}
			return sdkmetric.DefaultAggregationSelector(k)
		}))
		opts = []sdkmetric.Option{sdkmetric.WithReader(bad), sdkmetric.WithReader(rd), sdkmetric.WithReader(rc)}
		r.Fault("reader-with-incompatible-aggregation")
		r.Res.Config["misconfigured_reader"] = true
	}
	var pr *sdkmetric.PeriodicReader
	if usePeriodic {
		w.perTimeout, w.perLastEnd = perTimeout, time.Now()
		pr = sdkmetric.NewPeriodicReader(&exporter{w: w}, sdkmetric.WithInterval(w.interval), sdkmetric.WithTimeout(perTimeout))
		opts = append(opts, sdkmetric.WithReader(pr))
		w.perLast = sim.Stamp()
	}
	keepA := attribute.NewAllowKeysFilter("a")
	switch viewMode {
	case 1:
		opts = append(opts, sdkmetric.WithView(sdkmetric.NewView(sdkmetric.Instrument{Name: "counter_i"}, sdkmetric.Stream{AttributeFilter: keepA})))
	case 2:
		opts = append(opts, sdkmetric.WithView(
			sdkmetric.NewView(sdkmetric.Instrument{Name: "counter_f"}, sdkmetric.Stream{Name: "renamed_counter_f"}),
			sdkmetric.NewView(sdkmetric.Instrument{Name: "hist_i"}, sdkmetric.Stream{Aggregation: sdkmetric.AggregationDrop{}})))
	case 5:
		opts = append(opts, sdkmetric.WithView(
			sdkmetric.NewView(sdkmetric.Instrument{Name: "hist_*"}, sdkmetric.Stream{Aggregation: sdkmetric.AggregationDrop{}}),
			sdkmetric.NewView(sdkmetric.Instrument{Name: "hist_i"}, sdkmetric.Stream{Name: "hist_kept", Aggregation: sdkmetric.AggregationSum{}})))
	case 6:
		opts = append(opts, sdkmetric.WithView(
			sdkmetric.NewView(sdkmetric.Instrument{Name: "counter_i"}, sdkmetric.Stream{}),
			sdkmetric.NewView(sdkmetric.Instrument{Name: "counter_i"}, sdkmetric.Stream{Name: "counter_i_renamed"}),
			sdkmetric.NewView(sdkmetric.Instrument{Name: "counter_*", Kind: sdkmetric.InstrumentKindCounter}, sdkmetric.Stream{})))
	case 8:
		// two views match counter_f: the first asks for a last-value aggregation, which a counter cannot have
		// (an error at instrument creation), the second renames it; the valid stream must still get every
		// measurement (after seeded change C12-g)
		opts = append(opts, sdkmetric.WithView(
			sdkmetric.NewView(sdkmetric.Instrument{Name: "counter_f"}, sdkmetric.Stream{Aggregation: sdkmetric.AggregationLastValue{}}),
			sdkmetric.NewView(sdkmetric.Instrument{Name: "counter_f"}, sdkmetric.Stream{Name: "renamed_counter_f"})))
	case 9:
		// two views match counter_f and keep its name: the first asks for a last-value aggregation, which a
		// counter cannot have (an error at instrument creation), the second filters its attributes - the same
		// stream identity (name, description, unit, kind, number) twice, once invalid, once valid (after seeded
		// change C12-l, which caches the "incompatible aggregation" error under that identity)
		opts = append(opts, sdkmetric.WithView(
			sdkmetric.NewView(sdkmetric.Instrument{Name: "counter_f"}, sdkmetric.Stream{Aggregation: sdkmetric.AggregationLastValue{}}),
			sdkmetric.NewView(sdkmetric.Instrument{Name: "counter_f"}, sdkmetric.Stream{AttributeFilter: keepA})))
	case 7:
		// every instrument matches the name pattern, only the up-down counter matches the kind (after seeded change C12-d)
		opts = append(opts, sdkmetric.WithView(sdkmetric.NewView(sdkmetric.Instrument{Name: "*", Kind: sdkmetric.InstrumentKindUpDownCounter}, sdkmetric.Stream{AttributeFilter: keepA})))
	case 4:
		opts = append(opts, sdkmetric.WithView(sdkmetric.NewView(sdkmetric.Instrument{Name: "hist_i"}, sdkmetric.Stream{Name: "hist_as_sum", Aggregation: sdkmetric.AggregationSum{}})))
	case 3:
		opts = append(opts, sdkmetric.WithView(
			sdkmetric.NewView(sdkmetric.Instrument{Name: "updown_i"}, sdkmetric.Stream{Name: "updown_by_a", AttributeFilter: keepA}),
			sdkmetric.NewView(sdkmetric.Instrument{Name: "updown_i"}, sdkmetric.Stream{Name: "updown_all"})))
	}
	opts = append(opts, sdkmetric.WithView(sdkmetric.NewView(sdkmetric.Instrument{Name: "hist_exp"},
		sdkmetric.Stream{Aggregation: sdkmetric.AggregationBase2ExponentialHistogram{MaxSize: expMaxSize, MaxScale: expMaxScale}})))
	mp := sdkmetric.NewMeterProvider(opts...)
	meter := mp.Meter("metricsim")
	// Lazy runs create nothing up front: every recorder requests each instrument when it needs it, so that the
	// first instruments of the still empty pipelines are created concurrently, through different inserters
	// (after seeded change C02-k: a double-checked initialisation of pipeline.aggregations outside the lock).
	// They have no observable instruments.
	var ci metric.Int64Counter
	var cf metric.Float64Counter
	if !w.lazy {
		ci, _ = meter.Int64Counter("counter_i")
		cf, _ = meter.Float64Counter("counter_f")
	}
	// The up-down counter, the explicit-bucket histogram, the gauge and the two observable kinds whose callbacks
	// are registered at run time are int64 or float64 instruments, drawn per run and per instrument (same names,
	// same integral values): the float64 entry points of the meter, of the instruments and of the observer are
	// separate code from the int64 ones.
	var ui metric.Int64UpDownCounter
	var uf metric.Float64UpDownCounter
	var hi metric.Int64Histogram
	var hf metric.Float64Histogram
	var gi metric.Int64Gauge
	var gf metric.Float64Gauge
	var hj metric.Int64Histogram
	if w.lazy {
	} else if w.fUpDown {
		uf, _ = meter.Float64UpDownCounter("updown_i")
	} else {
		ui, _ = meter.Int64UpDownCounter("updown_i")
	}
	if w.lazy {
	} else if w.fHist {
		hf, _ = meter.Float64Histogram("hist_i", metric.WithExplicitBucketBoundaries(w.bounds...))
	} else {
		hi, _ = meter.Int64Histogram("hist_i", metric.WithExplicitBucketBoundaries(w.bounds...))
	}
	if !w.lazy {
		hj, _ = meter.Int64Histogram("lat_j", metric.WithExplicitBucketBoundaries(w.bounds...))
	}
	if w.lazy {
	} else if w.fGauge {
		gf, _ = meter.Float64Gauge("gauge_i")
	} else {
		gi, _ = meter.Int64Gauge("gauge_i")
	}
	var he metric.Float64Histogram
	obsInst := map[int]metric.Int64Observable{}
	obsInstF := map[int]metric.Float64Observable{}
	if !w.lazy {
		he, _ = meter.Float64Histogram("hist_exp")
		oc, _ := meter.Int64ObservableCounter("obs_counter")
		obsInst[6] = oc
	}
	if w.lazy {
	} else if w.fObs {
		ouf, _ := meter.Float64ObservableUpDownCounter("obs_updown")
		ogf, _ := meter.Float64ObservableGauge("obs_gauge")
		obsInstF[7], obsInstF[8] = ouf, ogf
	} else {
		ou, _ := meter.Int64ObservableUpDownCounter("obs_updown")
		og, _ := meter.Int64ObservableGauge("obs_gauge")
		obsInst[7], obsInst[8] = ou, og
	}
	obsAny := func(idx int) metric.Observable {
		if f, ok := obsInstF[idx]; ok {
			return f
		}
		return obsInst[idx]
	}
	// the float64 observable counter gets its callback at creation: always registered, routed per reader
	ocf := w.insts[9]
	ocfCallback := metric.WithFloat64Callback(func(_ context.Context, o metric.Float64Observer) error {
		task := sim.CurrentTask()
		c := w.curColl[task]
		if c == nil {
			c = &collection{reader: "P", observed: map[int]map[string]int64{}}
			w.curColl[task] = c
		}
		if c.observed == nil {
			c.observed = map[int]map[string]int64{}
		}
		if c.observed[ocf.idx] == nil {
			c.observed[ocf.idx] = map[string]int64{}
		}
		for _, s := range asyncSets {
			if v, ok := asyncValue(ocf, s, w.cycle); ok {
				o.Observe(float64(v), metric.WithAttributes(s.kvs()...))
				c.observed[ocf.idx][s.key(nil)] = v
			}
		}
		return nil
	})
	if !w.lazy {
		_, _ = meter.Float64ObservableCounter("obs_counter_f", ocfCallback)
	}
	regHandles := map[int]metric.Registration{}

	// one callback per async instrument; it records what it observes into the collecting task's record
	mkCallback := func(in *inst) metric.Callback {
		return func(_ context.Context, o metric.Observer) error {
			task := sim.CurrentTask()
			c := w.curColl[task]
			if c == nil {
				// a collection started by the periodic reader's own goroutine (or its Shutdown/ForceFlush)
				c = &collection{reader: "P", observed: map[int]map[string]int64{}}
				w.curColl[task] = c
			}
			if c.observed == nil {
				c.observed = map[int]map[string]int64{}
			}
			if c.observed[in.idx] == nil {
				c.observed[in.idx] = map[string]int64{}
			}
			for _, s := range asyncSets {
				if v, ok := asyncValue(in, s, w.cycle); ok {
					if f, ok := obsInstF[in.idx]; ok {
						o.ObserveFloat64(f, float64(v), metric.WithAttributes(s.kvs()...))
					} else {
						o.ObserveInt64(obsInst[in.idx], v, metric.WithAttributes(s.kvs()...))
					}
					c.observed[in.idx][s.key(nil)] = v
				}
			}
			return nil
		}
	}
	register := func(idx int) {
		reg, err := meter.RegisterCallback(mkCallback(w.insts[idx]), obsAny(idx))
		if err == nil {
			regHandles[idx] = reg
		}
	}
	// initial registrations (drawn), done before the tasks start
	for idx := 6; idx <= 8; idx++ {
		if r.Cfg(3) != 0 && !w.lazy {
			register(idx)
			w.regs[idx] = true
			w.regHist = append(w.regHist, regEv{inst: idx, on: true, inv: 0, ret: 0})
		}
	}

	lateHandles := map[string]metric.Int64Counter{}
	record := func(op *recOp) {
		ctx := context.Background()
		attrs := metric.WithAttributes(op.set.kvs()...)
		// One measurement in eight goes through an instrument object requested again just now (same name,
		// kind, unit and options: the SDK must hand back an instrument feeding the same aggregators), so
		// that instrument creation also runs concurrently with measurements, collections and itself.
		again := sim.Draw(8) == 0 || w.lazy
		if again {
			r.Fault("instrument-requested-again")
		}
		switch w.insts[op.inst].kind {
		case kCounterLate:
			h := lateHandles[op.task]
			if h == nil || again {
				r.Fault("late-instrument-requested")
				h, _ = mp.Meter("metricsim/late").Int64Counter("counter_late")
				lateHandles[op.task] = h
			}
			h.Add(ctx, op.value(), attrs)
		case kCounterI:
			h := ci
			if again {
				h, _ = meter.Int64Counter("counter_i")
			}
			h.Add(ctx, op.value(), attrs)
		case kCounterF:
			h := cf
			if again {
				h, _ = meter.Float64Counter("counter_f")
			}
			h.Add(ctx, float64(op.value()), attrs)
		case kUpDownI:
			if w.fUpDown {
				h := uf
				if again {
					h, _ = meter.Float64UpDownCounter("updown_i")
				}
				h.Add(ctx, float64(op.value()), attrs)
				break
			}
			h := ui
			if again {
				h, _ = meter.Int64UpDownCounter("updown_i")
			}
			h.Add(ctx, op.value(), attrs)
		case kHistI:
			if w.fHist {
				h := hf
				if again {
					h, _ = meter.Float64Histogram("hist_i", metric.WithExplicitBucketBoundaries(w.bounds...))
				}
				h.Record(ctx, float64(op.value()), attrs)
				break
			}
			h := hi
			if again {
				h, _ = meter.Int64Histogram("hist_i", metric.WithExplicitBucketBoundaries(w.bounds...))
			}
			h.Record(ctx, op.value(), attrs)
		case kHistJ:
			h := hj
			if again {
				h, _ = meter.Int64Histogram("lat_j", metric.WithExplicitBucketBoundaries(w.bounds...))
			}
			h.Record(ctx, op.value(), attrs)
		case kGaugeI:
			if w.fGauge {
				h := gf
				if again {
					h, _ = meter.Float64Gauge("gauge_i")
				}
				h.Record(ctx, float64(op.gaugeVal), attrs)
				break
			}
			h := gi
			if again {
				h, _ = meter.Int64Gauge("gauge_i")
			}
			h.Record(ctx, op.gaugeVal, attrs)
		case kHistExpF:
			h := he
			if again {
				h, _ = meter.Float64Histogram("hist_exp")
			}
			h.Record(ctx, op.fval, attrs)
			for _, v := range op.burst {
				h.Record(ctx, v, attrs)
			}
		}
	}
	for t, plan := range recPlans {
		plan := plan
		sim.Spawn(fmt.Sprintf("rec%d", t), func() {
			for _, op := range plan {
				if op.sleep > 0 {
					simrt.Sleep(op.sleep, simdrv.PtSleep)
				}
				simrt.Yield(simdrv.PtOp)
				simrt.RWRLock(&w.gate, simdrv.PtStub)
				op.inv = sim.Stamp()
				r.Log("%d rec-invoke %s %s set=[%s] bit=%d neg=%v gauge=%d f=%v", op.inv, op.task, w.insts[op.inst].name, op.set.key(nil), op.bit, op.neg, op.gaugeVal, op.fval)
				record(op)
				op.ret = sim.Stamp()
				r.Log("%d rec-return %s", op.ret, op.task)
				simrt.RWRUnlock(&w.gate, simdrv.PtStub)
				r.Res.Ops++
			}
		})
	}
	// Half of the collections reuse the ResourceMetrics of the previous collection of the same task and
	// reader (as the periodic reader and most exporters do) instead of a fresh one: whatever the SDK fails to
	// overwrite or truncate there shows up as data (after seeded change C08-f).
	reused := map[string]*metricdata.ResourceMetrics{}
	collect := func(task, reader string, joint int) *collection {
		c := &collection{reader: reader, joint: joint, how: "collect", cycle: w.cycle}
		w.curColl[task] = c
		rmp := &metricdata.ResourceMetrics{}
		if sim.Draw(2) == 0 {
			if reused[task+reader] == nil {
				reused[task+reader] = rmp
			}
			rmp = reused[task+reader]
			r.Fault("collect-into-reused-resourcemetrics")
		}
		c.inv = sim.Stamp()
		r.Log("%d collect-invoke %s reader=%s joint=%d", c.inv, task, reader, joint)
		rdr := rd
		if reader == "C" {
			rdr = rc
		}
		ctx, cancel := context.Background(), context.CancelFunc(func() {})
		if joint == 0 && sim.Draw(6) == 0 {
			// a caller deadline that may expire while the collection is under way (or before it starts)
			if k := sim.Draw(5); k < 3 {
				ctx, cancel = context.WithTimeout(ctx, []time.Duration{time.Nanosecond, time.Millisecond, 10 * time.Millisecond}[k])
				r.Fault("collect-with-expiring-ctx")
			} else {
				// cancelled by another task after a drawn number of its scheduling turns, so that the
				// cancellation lands at an arbitrary statement of the collection
				ctx, cancel = context.WithCancel(ctx)
				n, cf := sim.Draw(40), cancel
				simrt.Go(simdrv.PtStub, func() {
					for i := 0; i < n; i++ {
						simrt.Yield(simdrv.PtStub)
					}
					cf()
				})
				r.Fault("collect-cancelled-midway")
			}
		}
		c.err = rdr.Collect(ctx, rmp)
		cancel()
		if c.err != nil {
			r.Fault("collect-returned-error")
		}
		c.ret = sim.Stamp()
		delete(w.curColl, task)
		c.data = extract(rmp)
		w.nColl[reader]++
		c.idx = w.nColl[reader]
		w.colls = append(w.colls, c)
		r.Log("%d collect-return %s reader=%s err=%v %s obs=%v", c.ret, task, reader, c.err, summarize(c.data), c.observed)
		return c
	}
	jointCollect := func(task string) {
		simrt.RWLock(&w.gate, simdrv.PtStub)
		w.cycle++
		w.jointN++
		j := w.jointN
		collect(task, "D", j)
		collect(task, "C", j)
		simrt.RWUnlock(&w.gate, simdrv.PtStub)
	}
	for t, plan := range colPlans {
		plan := plan
		name := fmt.Sprintf("col%d", t)
		sim.Spawn(name, func() {
			for _, op := range plan {
				if op.sleep > 0 {
					simrt.Sleep(op.sleep, simdrv.PtSleep)
				}
				simrt.Yield(simdrv.PtOp)
				switch op.kind {
				case "D", "C":
					// individual collections run concurrently with measurements and with each other, but
					// never inside a joint section (which holds the gate exclusively)
					simrt.RWRLock(&w.gate, simdrv.PtStub)
					collect(name, op.kind, 0)
					simrt.RWRUnlock(&w.gate, simdrv.PtStub)
				case "joint":
					jointCollect(name)
				case "flush":
					ctx, cancel, ck := simdrv.MkCtx(op.ctxK, time.Second)
					o := &simdrv.OpCall{Kind: "flush", Level: "mp", CtxKind: ck, Task: name, Inv: sim.Stamp()}
					w.ops = append(w.ops, o)
					r.Log("%d flush-invoke %s ctx=%s", o.Inv, name, ck)
					o.Err = mp.ForceFlush(ctx)
					o.Ret = sim.Stamp()
					cancel()
					r.Log("%d flush-return %s err=%v", o.Ret, name, o.Err)
				}
				r.Res.Ops++
			}
		})
	}
	if len(regPlan) > 0 {
		sim.Spawn("registrar", func() {
			for _, op := range regPlan {
				simrt.Sleep(op.sleep, simdrv.PtSleep)
				simrt.Yield(simdrv.PtOp)
				// (un)registration is kept out of joint sections (both readers must see the same callbacks there)
				simrt.RWRLock(&w.gate, simdrv.PtStub)
				ev := regEv{inst: op.inst, on: op.on, inv: sim.Stamp()}
				r.Log("%d reg-invoke inst=%s on=%v", ev.inv, w.insts[op.inst].name, op.on)
				if op.on && !w.regs[op.inst] {
					register(op.inst)
					w.regs[op.inst] = true
				} else if !op.on && w.regs[op.inst] {
					regHandles[op.inst].Unregister()
					w.regs[op.inst] = false
				}
				ev.ret = sim.Stamp()
				w.regHist = append(w.regHist, ev)
				r.Log("%d reg-return", ev.ret)
				simrt.RWRUnlock(&w.gate, simdrv.PtStub)
				r.Res.Ops++
			}
		})
	}
	// closer: after everybody else, one last joint collection and the provider shutdown
	sim.Spawn("closer", func() {
		sim.JoinOthers(simdrv.PtOp)
		jointCollect("closer")
		o := &simdrv.OpCall{Kind: "shutdown", Level: "mp", CtxKind: "background", Task: "closer", Inv: sim.Stamp()}
		w.ops = append(w.ops, o)
		r.Log("%d shutdown-invoke", o.Inv)
		o.Err = mp.Shutdown(context.Background())
		o.Ret = sim.Stamp()
		r.Log("%d shutdown-return err=%v", o.Ret, o.Err)
	})
	out := sim.Run()
	r.Finish(out)
	r.Res.NonTrivial = sim.Switches > 0 && len(sim.TaskNames()) >= 2
	if r.Res.Outcome == "harness-panic" {
		return // the simulator lost track of the system: reported as harness trouble, never as a violation
	}
	switch out.Kind {
	case simrt.Budget:
		return
	case simrt.Fatal:
		for _, p := range []string{"C02", "C08", "C12"} {
			r.Violate(p, "panic", "panic", "%s", out.Detail)
		}
		return
	case simrt.Deadlock:
		for _, p := range []string{"C02", "C08", "C12"} {
			r.Violate(p, "deadlock", "deadlock", "%s", out.Detail)
		}
		return
	case simrt.Hang:
		r.Violate("C02", "hang", "hang", "%s", out.Detail)
		return
	}
	w.oracleC02(usePeriodic)
	w.oracleC08()
	w.oracleC12()
}

var _ = math.Abs
