package metricsim

import (
	"fmt"
	"sort"
	"strings"
)

// ---------- helpers ----------

//go:norace
func (w *world) opsOf(in *inst) []*recOp {
	var out []*recOp
	for _, o := range w.recs {
		if o.inst == in.idx && o.inv != 0 {
			out = append(out, o)
		}
	}
	return out
}

// decoded is the set of operations a reported sum value contains.
type decoded struct {
	pos, neg uint64
	ok       bool
}

const posMask = (int64(1) << 30) - 1

//go:norace
func decode(v int64) decoded {
	p := ((v % (1 << 30)) + (1 << 30)) % (1 << 30)
	n := p - v
	if n < 0 || n%(1<<30) != 0 {
		return decoded{}
	}
	return decoded{pos: uint64(p), neg: uint64(n >> 30), ok: true}
}

//go:norace
func (d decoded) has(o *recOp) bool {
	if o.neg {
		return d.neg&(1<<uint(o.bit)) != 0
	}
	return d.pos&(1<<uint(o.bit)) != 0
}

//go:norace
func (w *world) collsOf(reader string) []*collection {
	var out []*collection
	for _, c := range w.colls {
		if c.reader == reader && c.err == nil {
			out = append(out, c)
		}
	}
	sort.Slice(out, func(i, j int) bool { return out[i].ret < out[j].ret })
	return out
}

//go:norace
func (w *world) viol(props []string, class, sig, format string, a ...any) {
	for _, p := range props {
		w.r.Violate(p, class, sig, format, a...)
	}
}

// conservationProps: which properties a conservation failure on this stream is reported under.
//
//go:norace
func (w *world) conservationProps(in *inst, st stream) []string {
	props := []string{"C02"}
	if w.limit > 0 || st.keep != nil || st.name != in.name || len(in.streams) > 1 {
		props = append(props, "C12")
	}
	return props
}

// contents decodes one collection of one stream: which ops are reported, and under which key.
// Returns per op the key it was found under ("" if absent) and reports malformed contents.
//
//go:norace
func (w *world) contents(props []string, in *inst, st stream, c *collection, ops []*recOp) map[*recOp]string {
	found := map[*recOp]string{}
	pts := c.data[st.name]
	var keys []string
	for k := range pts {
		keys = append(keys, k)
	}
	sort.Strings(keys)
	for _, k := range keys {
		p := pts[k]
		where := fmt.Sprintf("%s reader %s#%d key [%s]", st.name, c.reader, c.idx, k)
		if strings.HasSuffix(k, "#DUP") {
			w.viol(props, "duplicate-attribute-set", "duplicate-attribute-set", "%s: the same attribute set is reported twice in one collection", where)
			continue
		}
		if p.kind != "sum" {
			w.viol(props, "wrong-aggregation", "wrong-aggregation", "%s: expected a sum, got %s", where, p.kind)
			continue
		}
		if !p.isInt && p.sum != float64(int64(p.sum)) {
			w.viol(props, "impossible-value", "impossible-value", "%s: value %v is not a sum of recorded measurements", where, p.sum)
			continue
		}
		d := decode(p.ival)
		if !d.ok {
			w.viol(props, "impossible-value", "impossible-value", "%s: value %d is not a sum of recorded measurements", where, p.ival)
			continue
		}
		var acc decoded
		for _, o := range ops {
			if !d.has(o) {
				continue
			}
			if o.neg {
				acc.neg |= 1 << uint(o.bit)
			} else {
				acc.pos |= 1 << uint(o.bit)
			}
			own := o.set.key(st.keep)
			if k != own && k != overflowKey {
				w.viol(props, "misattributed", "misattributed", "%s contains the measurement bit=%d neg=%v that was recorded for set [%s]", where, o.bit, o.neg, own)
			}
			if k == overflowKey && w.limit == 0 {
				w.viol(props, "misattributed", "misattributed", "%s: overflow set reported without a cardinality limit", where)
			}
			if prev, dup := found[o]; dup {
				w.viol(props, "double-counted", "double-counted/same-collection", "%s: measurement bit=%d is reported under [%s] and [%s] in the same collection", where, o.bit, prev, k)
			}
			found[o] = k
		}
		if acc.pos != d.pos || acc.neg != d.neg {
			w.viol(props, "impossible-value", "impossible-value", "%s: value %d contains increments that were never recorded for this instrument (or one increment more than once)", where, p.ival)
		}
	}
	return found
}

// ---------- C02 ----------

// checkZeroSets: a measurement of value 0 names no bit, but it creates its attribute set: every cumulative
// collection invoked after it returned reports a point for that set (whose value may well be 0).
//
//go:norace
func (w *world) checkZeroSets() {
	if w.limit > 0 {
		return // the set may legitimately have gone to the overflow set
	}
	for _, z := range w.zeros {
		if z.ret == 0 {
			continue
		}
		in := w.insts[z.inst]
		for _, st := range in.streams {
			if st.dropped {
				continue
			}
			key := z.set.key(st.keep)
			for _, c := range w.collsOf("C") {
				if c.inv < z.ret {
					continue
				}
				if _, ok := c.data[st.name][key]; !ok {
					w.viol(w.conservationProps(in, st), "cumulative-forgot", "cumulative-forgot-set/C", "%s reader C: collection #%d (invoked %d) has no point for set [%s] although Add(0) for it returned at %d; reported sets %v", st.name, c.idx, c.inv, key, z.ret, keysOf(c.data[st.name]))
					break
				}
			}
		}
	}
}

// checkCallbacksRan: a callback that is registered - its registration returned before the collection was
// invoked, and no unregistration of it was invoked before the collection returned - is run by every
// successful collection of every reader, whatever else is registered or unregistered meanwhile (the
// statement quantifies over histories interleaving callback registration/unregistration and collections).
//
//go:norace
func (w *world) checkCallbacksRan() {
	for _, c := range w.colls {
		if c.err != nil || c.ret == 0 || c.how == "export" && c.observed == nil {
			continue
		}
		for idx := 6; idx <= 8; idx++ {
			registered, unsure := false, false
			for _, e := range w.regHist {
				if e.inst != idx {
					continue
				}
				switch {
				case e.ret < c.inv || e.ret == 0 && e.inv == 0: // completed before the collection (or initial)
					registered = e.on
				case e.inv < c.ret: // overlaps the collection
					unsure = true
				}
			}
			if registered && !unsure && c.observed[idx] == nil {
				w.r.Violate("C08", "callback-not-invoked", "callback-not-invoked", "%s: the callback registered for it was not run by the collection of reader %s invoked at %d (returned %d), although its registration had returned and no unregistration of it was under way", w.insts[idx].name, c.reader, c.inv, c.ret)
			}
		}
	}
}

//go:norace
func (w *world) oracleC02(usePeriodic bool) {
	w.checkZeroSets()
	w.checkCallbacksRan()
	readers := []string{"D", "C"}
	if usePeriodic {
		readers = append(readers, "P")
	}
	for _, in := range w.insts {
		if !in.sumLike() {
			continue
		}
		ops := w.opsOf(in)
		for _, st := range in.streams {
			props := w.conservationProps(in, st)
			for _, rd := range readers {
				colls := w.collsOf(rd)
				if st.dropped {
					continue
				}
				delta := rd == "D" || (rd == "P" && w.perTemp.String() == "DeltaTemporality")
				type cc struct {
					c     *collection
					found map[*recOp]string
				}
				var all []cc
				for _, c := range colls {
					all = append(all, cc{c, w.contents(props, in, st, c, ops)})
				}
				where := fmt.Sprintf("%s reader %s", st.name, rd)
				if delta {
					seen := map[*recOp]*collection{}
					for _, x := range all {
						for o := range x.found {
							if prev := seen[o]; prev != nil {
								w.viol(props, "double-counted", "double-counted/"+rd, "%s: measurement bit=%d neg=%v (task %s) is reported by collection #%d and again by #%d", where, o.bit, o.neg, o.task, prev.idx, x.c.idx)
							}
							seen[o] = x.c
							if o.inv > x.c.ret {
								w.viol(props, "phantom", "phantom/"+rd, "%s: collection #%d (returned at %d) contains measurement bit=%d whose Add was invoked only at %d", where, x.c.idx, x.c.ret, o.bit, o.inv)
							}
						}
					}
					for _, o := range ops {
						if o.ret == 0 {
							continue
						}
						// first collection invoked after the Add returned
						var cstar *collection
						for _, x := range all {
							if x.c.inv > o.ret && (cstar == nil || x.c.inv < cstar.inv) {
								cstar = x.c
							}
						}
						if cstar == nil {
							continue
						}
						okFound := false
						for _, x := range all {
							if _, has := x.found[o]; has && x.c.inv < cstar.ret {
								okFound = true
							}
						}
						if !okFound {
							w.viol(props, "lost-measurement", "lost-measurement/"+rd, "%s: measurement bit=%d neg=%v set [%s] (Add returned at %d) is in no collection up to #%d (invoked %d, returned %d)", where, o.bit, o.neg, o.set.key(st.keep), o.ret, cstar.idx, cstar.inv, cstar.ret)
						}
					}
				} else {
					for i, x := range all {
						for _, o := range ops {
							_, has := x.found[o]
							if !has && o.ret != 0 && o.ret < x.c.inv {
								w.viol(props, "lost-measurement", "lost-measurement/"+rd, "%s: cumulative collection #%d (invoked %d) misses measurement bit=%d neg=%v set [%s] whose Add returned at %d", where, x.c.idx, x.c.inv, o.bit, o.neg, o.set.key(st.keep), o.ret)
							}
							if has && o.inv > x.c.ret {
								w.viol(props, "phantom", "phantom/"+rd, "%s: collection #%d (returned at %d) contains measurement bit=%d whose Add was invoked only at %d", where, x.c.idx, x.c.ret, o.bit, o.inv)
							}
						}
						for j := 0; j < i; j++ {
							y := all[j]
							if y.c.ret >= x.c.inv {
								continue
							}
							for o := range y.found {
								if _, has := x.found[o]; !has {
									w.viol(props, "cumulative-forgot", "cumulative-forgot/"+rd, "%s: measurement bit=%d was in collection #%d but is missing from the later collection #%d", where, o.bit, y.c.idx, x.c.idx)
								}
							}
							if in.kind != kUpDownI {
								var tx, ty float64
								for _, p := range x.c.data[st.name] {
									tx += p.sum
								}
								for _, p := range y.c.data[st.name] {
									ty += p.sum
								}
								if tx < ty {
									w.viol([]string{"C02"}, "monotonic-decreased", "monotonic-decreased", "%s: total went from %v (collection #%d) down to %v (#%d)", where, ty, y.c.idx, tx, x.c.idx)
								}
							}
						}
					}
				}
				if rd == "P" {
					// ForceFlush / Shutdown visibility through the periodic reader
					for _, op := range w.ops {
						if op.Ret == 0 || op.Err != nil {
							continue
						}
						for _, o := range ops {
							if o.ret == 0 || o.ret >= op.Inv {
								continue
							}
							okFound := false
							for _, x := range all {
								if _, has := x.found[o]; has && x.c.ret < op.Ret {
									okFound = true
								}
							}
							if !okFound {
								w.viol(props, "not-exported-at-return", "not-exported-at-return/"+op.Kind, "%s: measurement bit=%d (Add returned at %d) is in no export begun before provider %s (invoked %d) returned nil at %d", where, o.bit, o.ret, op.Kind, op.Inv, op.Ret)
							}
						}
					}
				}
			}
		}
	}
	// a dropped stream reports nothing, for every reader
	for _, in := range w.insts {
		for _, st := range in.streams {
			if !st.dropped {
				continue
			}
			for _, c := range w.colls {
				if len(c.data[st.name]) > 0 {
					w.viol([]string{"C12"}, "dropped-stream-reported", "dropped-stream-reported", "%s has a drop aggregation but reader %s#%d reports %d point(s)", st.name, c.reader, c.idx, len(c.data[st.name]))
				}
			}
		}
	}
}

// ---------- C08 ----------

//go:norace
func (w *world) jointPairs() [][2]*collection {
	byJ := map[int][2]*collection{}
	maxJ := 0
	for _, c := range w.colls {
		if c.joint == 0 || c.err != nil {
			continue
		}
		p := byJ[c.joint]
		if c.reader == "D" {
			p[0] = c
		} else if c.reader == "C" {
			p[1] = c
		}
		byJ[c.joint] = p
		if c.joint > maxJ {
			maxJ = c.joint
		}
	}
	var out [][2]*collection
	for j := 1; j <= maxJ; j++ {
		if p := byJ[j]; p[0] != nil && p[1] != nil {
			out = append(out, p)
		}
	}
	return out
}

//go:norace
func (w *world) oracleC08() {
	const prop = "C08"
	dColls := w.collsOf("D")
	cColls := w.collsOf("C")
	for _, jp := range w.jointPairs() {
		jd, jc := jp[0], jp[1]
		for _, in := range w.insts {
			if in.kind.isAsync() || in.kind == kGaugeI {
				continue
			}
			for _, st := range in.streams {
				if st.dropped {
					continue
				}
				// fold of all delta collections so far
				type agg struct {
					sum      float64
					count    uint64
					buckets  []uint64
					min, max float64
					has      bool
					exp      []point // exponential-histogram delta points (rescaled when compared)
					zero     uint64
				}
				fold := map[string]*agg{}
				for _, c := range dColls {
					if c.ret > jd.ret {
						continue
					}
					for k, p := range c.data[st.name] {
						a := fold[k]
						if a == nil {
							a = &agg{}
							fold[k] = a
						}
						a.sum += p.sum
						a.count += p.count
						if p.kind == "exphist" {
							a.exp = append(a.exp, p)
							a.zero += p.zero
						}
						if len(p.buckets) > 0 {
							if a.buckets == nil {
								a.buckets = make([]uint64, len(p.buckets))
							}
							for i := range p.buckets {
								if i < len(a.buckets) {
									a.buckets[i] += p.buckets[i]
								}
							}
						}
						if p.hasMin {
							if !a.has || p.min < a.min {
								a.min = p.min
							}
							if !a.has || p.max > a.max {
								a.max = p.max
							}
							a.has = true
						}
					}
				}
				cum := jc.data[st.name]
				where := fmt.Sprintf("%s at joint point %d (delta #%d, cumulative #%d)", st.name, jd.joint, jd.idx, jc.idx)
				if w.limit > 0 {
					// identities may legitimately differ between the two readers once sets overflow: compare totals
					var ts, tc float64
					var ns, nc uint64
					for _, a := range fold {
						ts += a.sum
						ns += a.count
					}
					for _, p := range cum {
						tc += p.sum
						nc += p.count
					}
					if ts != tc || ns != nc {
						w.r.Violate(prop, "delta-cumulative-mismatch", "delta-cumulative-mismatch/total", "%s: cumulative total %v (count %d) != running total of deltas %v (count %d)", where, tc, nc, ts, ns)
					}
					continue
				}
				keys := map[string]bool{}
				for k := range fold {
					keys[k] = true
				}
				for k := range cum {
					keys[k] = true
				}
				for k := range keys {
					a, p := fold[k], cum[k]
					if a == nil {
						a = &agg{}
					}
					if _, ok := cum[k]; !ok {
						if a.sum != 0 || a.count != 0 {
							w.r.Violate(prop, "delta-cumulative-mismatch", "delta-cumulative-mismatch/missing-in-cumulative", "%s set [%s]: deltas add up to %v (count %d) but the cumulative reader reports nothing", where, k, a.sum, a.count)
						}
						continue
					}
					if p.sum != a.sum || p.count != a.count {
						w.r.Violate(prop, "delta-cumulative-mismatch", "delta-cumulative-mismatch/"+p.kind, "%s set [%s]: cumulative %v (count %d) != running total of deltas %v (count %d)", where, k, p.sum, p.count, a.sum, a.count)
					}
					if p.kind == "exphist" {
						w.checkExpo(prop, where, k, p, a.exp, a.zero)
					}
					if p.kind == "hist" {
						for i := range p.buckets {
							var ab uint64
							if i < len(a.buckets) {
								ab = a.buckets[i]
							}
							if p.buckets[i] != ab {
								w.r.Violate(prop, "delta-cumulative-mismatch", "delta-cumulative-mismatch/bucket", "%s set [%s]: cumulative bucket %d holds %d, deltas add up to %d", where, k, i, p.buckets[i], ab)
							}
						}
						var tot uint64
						for _, b := range p.buckets {
							tot += b
						}
						if tot != p.count {
							w.r.Violate(prop, "histogram-inconsistent", "histogram-inconsistent", "%s set [%s]: bucket counts sum to %d, count is %d", where, k, tot, p.count)
						}
						if a.has && p.hasMin && (p.min != a.min || p.max != a.max) {
							w.r.Violate(prop, "delta-cumulative-mismatch", "delta-cumulative-mismatch/minmax", "%s set [%s]: cumulative min/max %v/%v, deltas give %v/%v", where, k, p.min, p.max, a.min, a.max)
						}
					}
				}
			}
		}
		// asynchronous instruments: exactly the observed sets, delta = observed - previously observed
		// (under a cardinality limit: after redirecting all but the first limit-1 observed sets to the overflow set)
		w.checkAsync(jd, jc, dColls)
		w.checkGauge(prop, jd, dColls)
	}
	w.checkAsyncEvery()
	// interval bookkeeping: delta intervals adjacent and non-overlapping, cumulative start fixed
	for _, in := range w.insts {
		for _, st := range in.streams {
			if st.dropped {
				continue
			}
			var prevWith *collection
			for i, c := range dColls {
				pts := c.data[st.name]
				if len(pts) == 0 {
					continue
				}
				var pt point
				first := true
				for k, p := range pts {
					if p.start.After(p.time) {
						w.r.Violate(prop, "start-after-time", "start-after-time/delta", "%s reader D#%d set [%s]: start %v is after time %v", st.name, c.idx, k, p.start, p.time)
					}
					if !first && (!p.start.Equal(pt.start) || !p.time.Equal(pt.time)) {
						w.r.Violate(prop, "interval-mismatch", "interval-mismatch/within-collection", "%s reader D#%d: points of one collection carry different intervals", st.name, c.idx)
					}
					pt, first = p, false
				}
				if prevWith != nil && prevWith.ret < c.inv {
					var pp point
					for _, p := range prevWith.data[st.name] {
						pp = p
					}
					if pt.start.Before(pp.time) {
						w.r.Violate(prop, "interval-overlap", "interval-overlap/delta", "%s: delta collection #%d starts at %v, before the end %v of the earlier collection #%d", st.name, c.idx, pt.start, pp.time, prevWith.idx)
					}
					// immediate predecessor in the full sequence of D collections, with no concurrent collection around
					if i > 0 && dColls[i-1] == prevWith && !w.concurrentD(dColls, i) && !w.concurrentD(dColls, i-1) && !in.kind.isAsync() {
						if !pt.start.Equal(pp.time) {
							w.r.Violate(prop, "interval-gap", "interval-gap/delta", "%s: delta collection #%d starts at %v but the preceding collection #%d ended at %v", st.name, c.idx, pt.start, prevWith.idx, pp.time)
						}
					}
				}
				prevWith = c
			}
			if in.kind.isAsync() || in.kind == kGaugeI {
				continue // the statement fixes the start of cumulative sums and histograms
			}
			var start0 *point
			for _, c := range cColls {
				for k, p := range c.data[st.name] {
					p := p
					if p.start.After(p.time) {
						w.r.Violate(prop, "start-after-time", "start-after-time/cumulative", "%s reader C#%d set [%s]: start %v is after time %v", st.name, c.idx, k, p.start, p.time)
					}
					if start0 == nil {
						start0 = &p
					} else if !p.start.Equal(start0.start) {
						w.r.Violate(prop, "cumulative-start-moved", "cumulative-start-moved", "%s reader C#%d set [%s]: cumulative start %v differs from the earlier start %v", st.name, c.idx, k, p.start, start0.start)
					}
				}
			}
		}
	}
}

//go:norace
func (w *world) concurrentD(d []*collection, i int) bool {
	for j, o := range d {
		if j != i && o.inv < d[i].ret && d[i].inv < o.ret {
			return true
		}
	}
	return false
}

// abandonedBefore reports whether a collection of c's reader was abandoned with an error after callbacks
// of instrument idx had already observed values, with fewer than depth successful collections of that
// reader certainly between it and c. The observations of an abandoned collection stay in the precomputed
// aggregator (known finding C08-K1): they distort the next successful collection, and through the
// remembered last value of a delta sum the one after it, so depth is 1 for cumulative and 2 for delta.
//
//go:norace
func (w *world) abandonedBefore(c *collection, idx, depth int) bool {
	for _, a := range w.colls {
		if a == c || a.reader != c.reader || a.err == nil || a.ret == 0 || a.inv > c.inv || len(a.observed[idx]) == 0 {
			continue
		}
		between := 0
		for _, o := range w.colls {
			if o != c && o.reader == c.reader && o.err == nil && o.ret != 0 && o.inv > a.ret && o.ret < c.inv {
				between++
			}
		}
		if between < depth {
			return true
		}
	}
	return false
}

// limited maps what callbacks observed in one collection to what a stream under the cardinality limit
// holds: the first limit-1 observed sets keep their identity, all later ones are aggregated under the
// overflow set (summed; for a gauge the last one wins).
//
//go:norace
func (w *world) limited(in *inst, obs map[string]int64) map[string]int64 {
	if w.limit == 0 || obs == nil {
		return obs
	}
	out := map[string]int64{}
	n := 0
	for _, s := range asyncSets {
		k := s.key(nil)
		v, ok := obs[k]
		if !ok {
			continue
		}
		switch {
		case n < w.limit-1:
			out[k] = v
			n++
		case in.kind == kObsGauge:
			out[overflowKey] = v
		default:
			out[overflowKey] += v
		}
	}
	return out
}

// checkAsyncEvery: every successful collection of the cumulative reader - also the individual ones, which may
// overlap each other and anything else - reports for each asynchronous instrument exactly what the callbacks
// run by that very collection observed (a collection runs its callbacks and aggregates under the pipeline
// lock; after seeded change C12-k, which turns that lock into a read lock: of two overlapping collections one
// reports every observation twice and the other nothing).
//
//go:norace
func (w *world) checkAsyncEvery() {
	props := []string{"C08"}
	lim := ""
	if w.limit > 0 {
		props = append(props, "C12")
		lim = "/limit"
	}
	for _, c := range w.colls {
		if c.reader != "C" || c.err != nil || c.ret == 0 || c.joint != 0 {
			continue
		}
		for _, in := range w.insts {
			if !in.kind.isAsync() {
				continue
			}
			ctx, pr := lim, props
			for _, a := range w.colls {
				// an abandoned collection of this reader that is not separated from c by a successful one
				// (known finding C08-K1)
				if a == c || a.reader != c.reader || a.err == nil || a.ret == 0 || a.inv > c.ret || len(a.observed[in.idx]) == 0 {
					continue
				}
				sep := false
				for _, o := range w.colls {
					if o != c && o.reader == c.reader && o.err == nil && o.ret != 0 && o.inv > a.ret && o.ret < c.inv {
						sep = true
					}
				}
				if !sep {
					ctx, pr = lim+"/after-abandoned-collection", props[:1]
				}
			}
			name := in.name
			obs := w.limited(in, c.observed[in.idx])
			if !sameKeys(c.data[name], obs) {
				w.viol(pr, "async-sets-mismatch", "async-sets-mismatch/cumulative"+ctx, "%s in collection #%d of the cumulative reader (%d..%d, not a joint point): reported sets %v, its callbacks observed %v (limit %d)", name, c.idx, c.inv, c.ret, keysOf(c.data[name]), keysOfI(c.observed[in.idx]), w.limit)
				continue
			}
			for k, v := range obs {
				if c.data[name][k].ival != v {
					w.viol(pr, "async-value-mismatch", "async-value-mismatch/cumulative"+ctx, "%s set [%s] in collection #%d of the cumulative reader (%d..%d, not a joint point): reported %d, its callback observed %d", name, k, c.idx, c.inv, c.ret, c.data[name][k].ival, v)
				}
			}
		}
	}
}

//go:norace
func (w *world) checkAsync(jd, jc *collection, dColls []*collection) {
	props := []string{"C08"}
	lim := ""
	if w.limit > 0 {
		props = append(props, "C12")
		lim = "/limit"
	}
	for _, in := range w.insts {
		if !in.kind.isAsync() {
			continue
		}
		name := in.name
		// what an abandoned collection leaves behind is a C08 matter (known finding C08-K1), not one of limits
		ctxC, ctxD := lim, lim
		propsC, propsD := props, props
		if w.abandonedBefore(jc, in.idx, 1) {
			ctxC += "/after-abandoned-collection"
			propsC = props[:1]
		}
		if w.abandonedBefore(jd, in.idx, 2) {
			ctxD += "/after-abandoned-collection"
			propsD = props[:1]
		}
		// cumulative reader: exactly what this collection's callbacks observed
		obsC := w.limited(in, jc.observed[in.idx])
		if !sameKeys(jc.data[name], obsC) {
			w.viol(propsC, "async-sets-mismatch", "async-sets-mismatch/cumulative"+ctxC, "%s at joint point %d: cumulative reader reports sets %v, callbacks observed %v (limit %d)", name, jc.joint, keysOf(jc.data[name]), keysOfI(jc.observed[in.idx]), w.limit)
		} else {
			for k, v := range obsC {
				if jc.data[name][k].ival != v {
					w.viol(propsC, "async-value-mismatch", "async-value-mismatch/cumulative"+ctxC, "%s set [%s] at joint point %d: cumulative reader reports %d, callback observed %d", name, k, jc.joint, jc.data[name][k].ival, v)
				}
			}
		}
		obsD := w.limited(in, jd.observed[in.idx])
		if !sameKeys(jd.data[name], obsD) {
			w.viol(propsD, "async-sets-mismatch", "async-sets-mismatch/delta"+ctxD, "%s at joint point %d: delta reader reports sets %v, callbacks observed %v (limit %d)", name, jd.joint, keysOf(jd.data[name]), keysOfI(jd.observed[in.idx]), w.limit)
			continue
		}
		if in.kind == kObsGauge {
			for k, v := range obsD {
				if jd.data[name][k].ival != v {
					w.viol(propsD, "async-value-mismatch", "async-value-mismatch/gauge"+ctxD, "%s set [%s] at joint point %d: delta reader reports %d, callback observed %d", name, k, jd.joint, jd.data[name][k].ival, v)
				}
			}
			continue
		}
		// previous delta collection (must be unambiguous)
		var prev *collection
		amb := false
		for i, c := range dColls {
			if c == jd {
				if i > 0 {
					prev = dColls[i-1]
					if w.concurrentD(dColls, i-1) {
						amb = true
					}
				}
				break
			}
		}
		if amb {
			w.r.Probe("async-prev-ambiguous")
			continue
		}
		var prevObs map[string]int64
		if prev != nil {
			prevObs = w.limited(in, prev.observed[in.idx])
		}
		for k, v := range obsD {
			want := v - prevObs[k]
			if got := jd.data[name][k].ival; got != want {
				w.viol(propsD, "async-value-mismatch", "async-value-mismatch/delta"+ctxD, "%s set [%s] at joint point %d: delta reader reports %d, observed %d minus previously observed %d = %d", name, k, jd.joint, got, v, prevObs[k], want)
			}
		}
	}
}

// checkGauge: at a joint point the delta reader reports, per set, the last value recorded since its
// previous collection.
//
//go:norace
func (w *world) checkGauge(prop string, jd *collection, dColls []*collection) {
	if w.limit > 0 {
		return
	}
	var in *inst
	for _, x := range w.insts {
		if x.kind == kGaugeI {
			in = x
		}
	}
	var prev *collection
	for i, c := range dColls {
		if c == jd && i > 0 {
			prev = dColls[i-1]
		}
	}
	for _, st := range in.streams {
		bySet := map[string][]*recOp{}
		for _, o := range w.opsOf(in) {
			if o.ret == 0 || o.ret > jd.inv {
				continue
			}
			bySet[o.set.key(st.keep)] = append(bySet[o.set.key(st.keep)], o)
		}
		reported := jd.data[st.name]
		for k, ops := range bySet {
			var definite, maybe []*recOp
			for _, o := range ops {
				switch {
				case prev == nil || o.inv > prev.ret:
					definite = append(definite, o)
				case o.ret > prev.inv:
					maybe = append(maybe, o)
				}
			}
			p, has := reported[k]
			if len(definite) == 0 {
				if has {
					okv := false
					for _, o := range maybe {
						if o.gaugeVal == p.ival {
							okv = true
						}
					}
					if !okv {
						w.r.Violate(prop, "stale-gauge", "stale-gauge", "%s set [%s] at joint point %d: delta reader reports %d although nothing was recorded since its previous collection", st.name, k, jd.joint, p.ival)
					}
				}
				continue
			}
			if !has {
				w.r.Violate(prop, "gauge-missing", "gauge-missing", "%s set [%s] at joint point %d: recorded in this cycle but not reported", st.name, k, jd.joint)
				continue
			}
			// acceptable: any op of the cycle that no definite op follows in real time
			okv := false
			for _, o := range append(append([]*recOp{}, definite...), maybe...) {
				if o.gaugeVal != p.ival {
					continue
				}
				followed := false
				for _, d := range definite {
					if d != o && d.inv > o.ret {
						followed = true
					}
				}
				if !followed {
					okv = true
				}
			}
			if !okv {
				w.r.Violate(prop, "gauge-not-last", "gauge-not-last", "%s set [%s] at joint point %d: reported %d is not the last value recorded in the cycle", st.name, k, jd.joint, p.ival)
			}
		}
		for k := range reported {
			if _, ok := bySet[k]; !ok {
				w.r.Violate(prop, "stale-gauge", "stale-gauge", "%s set [%s] at joint point %d: reported but never recorded", st.name, k, jd.joint)
			}
		}
	}
}

//go:norace
func sameKeys(a map[string]point, b map[string]int64) bool {
	if len(a) != len(b) {
		return false
	}
	for k := range a {
		if _, ok := b[k]; !ok {
			return false
		}
	}
	return true
}

//go:norace
func keysOf(m map[string]point) []string {
	var out []string
	for k := range m {
		out = append(out, k)
	}
	sort.Strings(out)
	return out
}

//go:norace
func keysOfI(m map[string]int64) []string {
	var out []string
	for k := range m {
		out = append(out, k)
	}
	sort.Strings(out)
	return out
}

// ---------- C12 ----------

//go:norace
func (w *world) oracleC12() {
	const prop = "C12"
	if w.limit == 0 {
		return
	}
	L := w.limit
	for _, in := range w.insts {
		if in.kind.isAsync() {
			continue
		}
		ops := w.opsOf(in)
		for _, st := range in.streams {
			if st.dropped {
				continue
			}
			for _, c := range w.colls {
				if c.err != nil {
					continue
				}
				pts := c.data[st.name]
				where := fmt.Sprintf("%s reader %s#%d", st.name, c.reader, c.idx)
				if len(pts) > L {
					w.r.Violate(prop, "limit-exceeded", "limit-exceeded", "%s reports %d attribute sets with cardinality limit %d: %v", where, len(pts), L, keysOf(pts))
				}
				offered := map[string]bool{}
				for _, o := range ops {
					if o.inv < c.ret {
						offered[o.set.key(st.keep)] = true
					}
				}
				for k := range pts {
					if k == overflowKey {
						if len(offered) <= L-1 {
							w.r.Violate(prop, "spurious-overflow", "spurious-overflow", "%s reports the overflow set although only %d distinct set(s) were ever offered (limit %d)", where, len(offered), L)
						}
						continue
					}
					if !offered[strings.TrimSuffix(k, "#DUP")] {
						w.r.Violate(prop, "unknown-set", "unknown-set", "%s reports set [%s] that no measurement carried", where, k)
					}
				}
			}
			if !in.sumLike() {
				continue
			}
			// placement rule on the cumulative manual reader (its aggregation interval never resets, so
			// "first L-1 distinct sets" is well defined): use its last collection.
			cs := w.collsOf("C")
			if len(cs) == 0 {
				continue
			}
			last := cs[len(cs)-1]
			found := w.contents(nil, in, st, last, ops)
			for _, o := range ops {
				k, has := found[o]
				if !has || o.ret == 0 {
					continue
				}
				own := o.set.key(st.keep)
				// distinct other sets that definitely held their identity before o was invoked / possibly before o returned
				defOthers, mayOthers := map[string]bool{}, map[string]bool{}
				ownDefinitelyPresent, ownPossiblyPresent := false, false
				for _, x := range ops {
					if x == o {
						continue
					}
					kx, hx := found[x]
					if !hx || kx == overflowKey {
						continue
					}
					if kx == own {
						if x.ret != 0 && x.ret < o.inv {
							ownDefinitelyPresent = true
						}
						if x.inv < o.ret {
							ownPossiblyPresent = true
						}
						continue
					}
					if x.ret != 0 && x.ret < o.inv {
						defOthers[kx] = true
					}
					if x.inv < o.ret {
						mayOthers[kx] = true
					}
				}
				if k == overflowKey {
					if ownDefinitelyPresent {
						w.r.Violate(prop, "lost-identity", "lost-identity", "%s: measurement bit=%d for set [%s] was redirected to the overflow set although that set was already being aggregated", st.name, o.bit, own)
					}
					if len(mayOthers) < L-1 {
						w.r.Violate(prop, "premature-overflow", "premature-overflow", "%s: measurement bit=%d for set [%s] was redirected to the overflow set although at most %d other set(s) can have been present (limit %d)", st.name, o.bit, own, len(mayOthers), L)
					}
				} else if !ownPossiblyPresent && len(defOthers) >= L-1 {
					w.r.Violate(prop, "late-identity", "late-identity", "%s: measurement bit=%d kept its own set [%s] although %d other distinct sets were already present (limit %d)", st.name, o.bit, own, len(defOthers), L)
				}
			}
		}
	}
}

// checkExpo compares a cumulative exponential-histogram point with the fold of the delta points
// reported so far, after rescaling every side to the coarsest scale involved (an index i at scale s is
// index i>>d at scale s-d), and checks the point's internal consistency.
//
//go:norace
func (w *world) checkExpo(prop, where, key string, cum point, deltas []point, zero uint64) {
	minScale := cum.scale
	for _, d := range deltas {
		if d.count > d.zero && d.scale < minScale {
			minScale = d.scale
		}
	}
	rescale := func(p point) map[int32]uint64 {
		out := map[int32]uint64{}
		sh := uint(p.scale - minScale)
		for i, c := range p.pos {
			if c != 0 {
				out[(p.posOff+int32(i))>>sh] += c
			}
		}
		return out
	}
	var tot uint64
	for _, c := range cum.pos {
		tot += c
	}
	if tot+cum.zero+cum.negN != cum.count {
		// (the stream only exists through a re-aggregating view: measurements duplicated or lost between
		// count and buckets are C12's business as well)
		w.r.Violate("C12", "histogram-inconsistent", "histogram-inconsistent/exponential", "%s set [%s]: zero count %d + bucket counts %d != count %d (scale %d offset %d counts %v)", where, key, cum.zero, tot, cum.count, cum.scale, cum.posOff, cum.pos)
		w.r.Violate(prop, "histogram-inconsistent", "histogram-inconsistent/exponential", "%s set [%s]: zero count %d + bucket counts %d != count %d (scale %d offset %d counts %v)", where, key, cum.zero, tot, cum.count, cum.scale, cum.posOff, cum.pos)
	}
	if cum.zero != zero {
		w.r.Violate(prop, "delta-cumulative-mismatch", "delta-cumulative-mismatch/expo-zero", "%s set [%s]: cumulative zero count %d, deltas add up to %d", where, key, cum.zero, zero)
	}
	want := map[int32]uint64{}
	for _, d := range deltas {
		for i, c := range rescale(d) {
			want[i] += c
		}
	}
	got := rescale(cum)
	idx := map[int32]bool{}
	for i := range want {
		idx[i] = true
	}
	for i := range got {
		idx[i] = true
	}
	for i := range idx {
		if got[i] != want[i] {
			w.r.Violate(prop, "delta-cumulative-mismatch", "delta-cumulative-mismatch/expo-bucket", "%s set [%s]: at scale %d bucket %d the cumulative point holds %d, the deltas add up to %d (cumulative scale %d offset %d counts %v)", where, key, minScale, i, got[i], want[i], cum.scale, cum.posOff, cum.pos)
			return
		}
	}
}
