// Engine bsp: property C01 (batch span processor exactly-once), see DESIGN.md §3.
package bsp

import (
	"context"
	"fmt"
	"reflect"
	"sort"
	"strings"
	"testing"
	"time"

	"go.opentelemetry.io/otel"
	"go.opentelemetry.io/otel/attribute"
	sdktrace "go.opentelemetry.io/otel/sdk/trace"
	"go.opentelemetry.io/otel/trace"

	"verif/simdrv"
	"verif/simrt"
)

const prop = "C01"

// harness point ids (instrumentation ids are < 1e6)
const (
	ptOp      = 1000001
	ptSleep   = 1000002
	ptExpWait = 1000003
	ptSdWait  = 1000004
)

type engine struct{}

//go:norace
func (engine) Name() string { return "bsp" }

// RaceProps: a quarter of the workers run the race-detector build of this engine (DESIGN.md §2.11); a data
// race between two accesses of the code under test is reported under these properties.
//
//go:norace
func (engine) RaceProps() []string { return []string{"C01"} }

//go:norace
func TestWorker(t *testing.T) { simdrv.Worker(t, engine{}) }

type spanInfo struct {
	name     string
	sampled  bool
	record   bool
	endInv   uint64
	endRet   uint64
	exported int
	firstExp uint64 // stamp of the first ExportSpans invocation that carried it
}

type exportCall struct {
	beg, end uint64
	names    []string
	task     string
}

type opCall struct {
	kind    string // flush | shutdown
	level   string // sp | tp
	ctxKind string
	task    string
	inv     uint64
	ret     uint64
	err     error
}

type world struct {
	r   *simdrv.Run
	sim *simrt.Sim

	q, b     int
	blocking bool
	batchTO  time.Duration
	expTO    time.Duration
	faulty   bool

	spans   map[string]*spanInfo
	order   []string
	exports []*exportCall
	ops     []*opCall

	inflight   int
	sdInflight int
	sdCalls    int
	delays     []time.Duration
}

type sampler struct{}

//go:norace
func (sampler) ShouldSample(p sdktrace.SamplingParameters) sdktrace.SamplingResult {
	ts := trace.SpanContextFromContext(p.ParentContext).TraceState()
	switch {
	case strings.HasSuffix(p.Name, "S"):
		return sdktrace.SamplingResult{Decision: sdktrace.RecordAndSample, Tracestate: ts}
	case strings.HasSuffix(p.Name, "R"):
		return sdktrace.SamplingResult{Decision: sdktrace.RecordOnly, Tracestate: ts}
	}
	return sdktrace.SamplingResult{Decision: sdktrace.Drop, Tracestate: ts}
}

//go:norace
func (sampler) Description() string { return "by-name" }

type exporter struct{ w *world }

//go:norace
func (x *exporter) ExportSpans(ctx context.Context, spans []sdktrace.ReadOnlySpan) error {
	w := x.w
	c := &exportCall{beg: w.sim.Stamp(), task: w.sim.CurrentTask()}
	for _, s := range spans {
		c.names = append(c.names, s.Name())
	}
	w.exports = append(w.exports, c)
	w.r.Log("%d export-begin task=%s n=%d %v", c.beg, c.task, len(c.names), c.names)
	w.inflight++
	if w.inflight > 1 {
		w.r.Violate(prop, "concurrent-export", "concurrent-export", "ExportSpans invoked while another ExportSpans is running (stamp %d)", c.beg)
	}
	if w.sdInflight > 0 {
		w.r.Violate(prop, "export-overlaps-exporter-shutdown", "export-overlaps-exporter-shutdown", "ExportSpans invoked while exporter.Shutdown is running (stamp %d)", c.beg)
	}
	if len(c.names) > w.b {
		w.r.Violate(prop, "batch-too-large", "batch-too-large", "batch of %d > max %d", len(c.names), w.b)
	}
	for _, n := range c.names {
		si := w.spans[n]
		switch {
		case si == nil:
			w.r.Violate(prop, "unknown-span", "unknown-span", "exported span %q was never started", n)
		case si.endInv == 0:
			w.r.Violate(prop, "not-ended", "not-ended", "exported span %q has not ended", n)
		case !si.sampled:
			w.r.Violate(prop, "unsampled-exported", "unsampled-exported", "span %q is not sampled but was exported", n)
		}
		if si != nil {
			si.exported++
			if si.exported == 1 {
				si.firstExp = c.beg
			} else {
				w.r.Violate(prop, "duplicate-export", "duplicate-export", "span %q exported %d times", n, si.exported)
			}
		}
	}
	err := w.behave(ctx, "export")
	w.inflight--
	c.end = w.sim.Stamp()
	w.r.Log("%d export-end err=%v", c.end, err)
	return err
}

//go:norace
func (x *exporter) Shutdown(ctx context.Context) error {
	w := x.w
	w.sdCalls++
	st := w.sim.Stamp()
	w.r.Log("%d exporter-shutdown-begin task=%s", st, w.sim.CurrentTask())
	if w.inflight > 0 {
		w.r.Violate(prop, "export-overlaps-exporter-shutdown", "export-overlaps-exporter-shutdown", "exporter.Shutdown invoked while ExportSpans is running (stamp %d)", st)
	}
	w.sdInflight++
	err := w.behave(ctx, "expshutdown")
	w.sdInflight--
	w.r.Log("%d exporter-shutdown-end err=%v", w.sim.Stamp(), err)
	return err
}


// behave plays one tape-chosen exporter behaviour.
//
//go:norace
func (w *world) behave(ctx context.Context, what string) error {
	if !w.faulty {
		if w.sim.Draw(4) == 1 {
			d := w.delays[w.sim.Draw(3)]
			w.r.Fault(what + "-slow")
			simrt.Sleep(d, ptExpWait)
		}
		return nil
	}
	_, hasDeadline := ctx.Deadline()
	switch w.sim.Draw(7) {
	case 0, 1:
		return nil
	case 2:
		w.r.Fault(what + "-error")
		return w.r.Injected()
	case 3:
		d := w.delays[w.sim.Draw(len(w.delays))]
		w.r.Fault(what + "-slow-ignore-ctx")
		simrt.Sleep(d, ptExpWait)
		return nil
	case 4:
		d := w.delays[w.sim.Draw(len(w.delays))]
		w.r.Fault(what + "-slow-honour-ctx")
		return sleepCtx(ctx, d)
	case 5:
		if hasDeadline {
			w.r.Fault(what + "-hang-until-ctx")
			simrt.Yield(ptExpWait)
			<-ctx.Done()
			simrt.Woke(ptExpWait)
			return ctx.Err()
		}
		d := w.delays[w.sim.Draw(len(w.delays))]
		w.r.Fault(what + "-slow-honour-ctx")
		return sleepCtx(ctx, d)
	default:
		d := w.delays[w.sim.Draw(len(w.delays))]
		w.r.Fault(what + "-slow-then-error")
		simrt.Sleep(d, ptExpWait)
		return w.r.Injected()
	}
}

//go:norace
func sleepCtx(ctx context.Context, d time.Duration) error {
	simrt.Yield(ptExpWait)
	tm := time.NewTimer(d)
	defer tm.Stop()
	var err error
	select {
	case <-tm.C:
	case <-ctx.Done():
		err = ctx.Err()
	}
	simrt.Woke(ptExpWait)
	return err
}

//go:norace
func (w *world) mkctx(kind int, d time.Duration) (context.Context, context.CancelFunc, string) {
	switch kind {
	case 1:
		ctx, cancel := context.WithCancel(context.Background())
		cancel()
		return ctx, cancel, "cancelled"
	case 2:
		ctx, cancel := context.WithTimeout(context.Background(), d)
		return ctx, cancel, fmt.Sprintf("timeout(%v)", d)
	}
	return context.Background(), func() {}, "background"
}

type step struct {
	sleep time.Duration
	name  string
}

//go:norace
func (engine) Body(r *simdrv.Run) {
	w := &world{r: r, spans: map[string]*spanInfo{}}
	times := []time.Duration{time.Millisecond, 10 * time.Millisecond, time.Second, 5 * time.Second, 30 * time.Second}
	w.q = []int{1, 1, 2, 2, 3, 4, 8, 2048}[r.Cfg(8)]
	w.b = 1 + r.Cfg(min(w.q, 8)+1)
	w.blocking = r.Cfg(2) == 1
	w.batchTO = times[r.Cfg(len(times))]
	w.expTO = append([]time.Duration{0}, times...)[r.Cfg(len(times)+1)]
	w.expTO = min(w.expTO, 100*w.batchTO)
	w.faulty = r.Cfg(3) != 0
	w.delays = []time.Duration{time.Millisecond, 100 * time.Millisecond, 3 * time.Second, 40 * time.Second}
	// the worker wakes up once per batch timeout: keep every other duration within 100 batch timeouts
	// so that one run stays within the step budget
	clamp := func(xs []time.Duration) []time.Duration {
		out := make([]time.Duration, len(xs))
		for i, x := range xs {
			out[i] = min(x, 100*w.batchTO)
		}
		return out
	}
	w.delays = clamp(w.delays)
	times = clamp(times)
	// one run in eight is a "shutdown race" burst: blocking mode, tiny queue, several enders and a
	// Shutdown all at once - the neighbourhood in which an End can pass the stopped check, lose the
	// race against the drain and then find the queue full with nobody left to read it.
	burst := r.Cfg(8) == 0
	if burst {
		w.blocking, w.q, w.b = true, 1, 1
	}
	nEnders := 1 + r.Cfg(4)
	if burst {
		nEnders = 3 + r.Cfg(2)
	}
	enders := make([][]step, nEnders)
	for i := range enders {
		n := 1 + r.Cfg(6)
		for j := 0; j < n; j++ {
			kind := []string{"S", "S", "S", "S", "R", "D"}[r.Cfg(6)]
			st := step{name: fmt.Sprintf("e%ds%d%s", i, j, kind)}
			if r.Cfg(4) == 1 {
				st.sleep = times[r.Cfg(len(times))]
			}
			enders[i] = append(enders[i], st)
		}
	}
	type opPlan struct {
		kind  string
		level string
		sleep time.Duration
		ctxK  int
		ctxD  time.Duration
	}
	var plans []opPlan
	nFlush := r.Cfg(4)
	for i := 0; i < nFlush; i++ {
		p := opPlan{kind: "flush", level: []string{"sp", "sp", "tp"}[r.Cfg(3)], ctxK: []int{0, 0, 1, 2, 2}[r.Cfg(5)], ctxD: append(times, w.delays...)[r.Cfg(len(times)+len(w.delays))]}
		if r.Cfg(2) == 1 {
			p.sleep = times[r.Cfg(len(times))]
		}
		plans = append(plans, p)
	}
	nShut := []int{0, 1, 1, 1, 2}[r.Cfg(5)]
	for i := 0; i < nShut; i++ {
		p := opPlan{kind: "shutdown", level: []string{"sp", "sp", "tp"}[r.Cfg(3)], ctxK: []int{0, 0, 0, 1, 2, 2}[r.Cfg(6)], ctxD: append(times, w.delays...)[r.Cfg(len(times)+len(w.delays))]}
		if r.Cfg(3) != 0 {
			p.sleep = times[r.Cfg(len(times))]
		}
		plans = append(plans, p)
	}
	r.Res.Config["burst"] = burst
	r.Res.Config["q"] = w.q
	r.Res.Config["b"] = w.b
	r.Res.Config["blocking"] = w.blocking
	r.Res.Config["batch_timeout"] = w.batchTO.String()
	r.Res.Config["export_timeout"] = w.expTO.String()
	r.Res.Config["faulty"] = w.faulty
	r.Res.Config["enders"] = fmt.Sprint(enders)
	r.Res.Config["ops"] = fmt.Sprint(plans)

	var ts []time.Duration
	for _, T := range []time.Duration{w.batchTO, w.expTO} {
		if T > 0 {
			ts = append(ts, time.Nanosecond, T/2, T-time.Nanosecond, T, T+time.Nanosecond, 2*T)
		}
	}
	// Hang verdict: 5000 batch timeouts of forced idle time. Every scripted wait is <= 100 batch
	// timeouts and a run scripts a few dozen of them, mostly in parallel.
	sim := r.Start(r.DrawSched(ts, 5000*w.batchTO, 30000))
	w.sim = sim

	otel.SetErrorHandler(otel.ErrorHandlerFunc(func(error) {}))
	exp := &exporter{w: w}
	opts := []sdktrace.BatchSpanProcessorOption{
		sdktrace.WithMaxQueueSize(w.q), sdktrace.WithMaxExportBatchSize(w.b),
		sdktrace.WithBatchTimeout(w.batchTO), sdktrace.WithExportTimeout(w.expTO),
	}
	if w.blocking {
		opts = append(opts, sdktrace.WithBlocking())
	}
	bsp := sdktrace.NewBatchSpanProcessor(exp, opts...)
	tp := sdktrace.NewTracerProvider(sdktrace.WithSpanProcessor(bsp), sdktrace.WithSampler(sampler{}))
	tracer := tp.Tracer("bsp")

	for i, steps := range enders {
		steps := steps
		sim.Spawn(fmt.Sprintf("ender%d", i), func() {
			for _, st := range steps {
				if st.sleep > 0 {
					simrt.Sleep(st.sleep, ptSleep)
				}
				simrt.Yield(ptOp)
				_, sp := tracer.Start(context.Background(), st.name, trace.WithAttributes(attribute.String("n", st.name)))
				si := &spanInfo{name: st.name, sampled: sp.SpanContext().IsSampled(), record: sp.IsRecording()}
				w.spans[st.name] = si
				w.order = append(w.order, st.name)
				si.endInv = sim.Stamp()
				r.Log("%d end-invoke %s sampled=%v", si.endInv, st.name, si.sampled)
				if sim.Draw(6) == 0 {
					// the span is ended by two goroutines at once (a worker's deferred End racing a watchdog,
					// say): it must still be exported once (after seeded change C01-f)
					fin := make(chan struct{})
					simrt.Go(ptOp, func() {
						simrt.Yield(ptOp)
						sp.End()
						close(fin)
					})
					sp.End()
					simrt.Yield(ptOp)
					<-fin // (a blocking wait the scheduler sees as such, not a polling loop)
					simrt.Woke(ptOp)
					r.Fault("span-ended-by-two-goroutines")
				} else {
					sp.End()
				}
				si.endRet = sim.Stamp()
				r.Log("%d end-return %s", si.endRet, st.name)
				r.Res.Ops++
			}
		})
	}
	for i, p := range plans {
		p := p
		sim.Spawn(fmt.Sprintf("%s%d", p.kind, i), func() {
			if p.sleep > 0 {
				simrt.Sleep(p.sleep, ptSleep)
			}
			simrt.Yield(ptOp)
			ctx, cancel, ck := w.mkctx(p.ctxK, p.ctxD)
			defer cancel()
			op := &opCall{kind: p.kind, level: p.level, ctxKind: ck, task: sim.CurrentTask()}
			w.ops = append(w.ops, op)
			op.inv = sim.Stamp()
			r.Log("%d %s-invoke level=%s ctx=%s", op.inv, p.kind, p.level, ck)
			var err error
			switch {
			case p.kind == "flush" && p.level == "sp":
				err = bsp.ForceFlush(ctx)
			case p.kind == "flush":
				err = tp.ForceFlush(ctx)
			case p.level == "sp":
				err = bsp.Shutdown(ctx)
			default:
				err = tp.Shutdown(ctx)
			}
			op.err = err
			op.ret = sim.Stamp()
			r.Log("%d %s-return err=%v", op.ret, p.kind, err)
			r.Res.Ops++
		})
	}
	out := sim.Run()
	pending := w.pendingOps()
	if out.Kind == simrt.Done {
		// let drains and exports that are still in flight come to rest (bounded)
		sim.Settle(1500, 3*time.Minute)
	}
	dropped, haveDropped := readDropped(bsp)
	r.Finish(out)
	r.Res.NonTrivial = sim.Switches > 0 && len(sim.TaskNames()) >= 2
	r.Res.Config["dropped"] = dropped

	if r.Res.Outcome == "harness-panic" {
		return // the simulator lost track of the system: reported as harness trouble, never as a violation
	}
	switch out.Kind {
	case simrt.Budget:
		return // inconclusive, counted
	case simrt.Fatal:
		r.Violate(prop, "panic", "panic", "%s", out.Detail)
		return
	case simrt.Deadlock:
		r.Violate(prop, "deadlock", "deadlock", "%s", out.Detail)
		return
	case simrt.Hang:
		// Only Shutdown is owed termination unconditionally here; End (blocking mode) and ForceFlush
		// that never return once a Shutdown has been invoked are C15's "blocks forever", not C01.
		firstSd := w.firstShutdownInv()
		for _, p := range pending {
			excused := firstSd != 0 && (p == "end" && w.blocking || p == "flush")
			if !excused {
				r.Violate(prop, "hang", "hang/"+p, "%s never returned: %s", p, out.Detail)
			} else {
				r.Probe("stuck-after-shutdown-" + p)
			}
		}
	}
	w.oracle(dropped, haveDropped)
}

//go:norace
func (w *world) firstShutdownInv() uint64 {
	var f uint64
	for _, op := range w.ops {
		if op.kind == "shutdown" && (f == 0 || op.inv < f) {
			f = op.inv
		}
	}
	return f
}

//go:norace
func (w *world) pendingOps() []string {
	var out []string
	for _, n := range w.order {
		if si := w.spans[n]; si.endInv != 0 && si.endRet == 0 {
			out = append(out, "end")
		}
	}
	for _, op := range w.ops {
		if op.ret == 0 {
			out = append(out, op.kind)
		}
	}
	return out
}

//go:norace
func readDropped(sp sdktrace.SpanProcessor) (uint32, bool) {
	v := reflect.ValueOf(sp)
	if v.Kind() != reflect.Pointer || v.Elem().Kind() != reflect.Struct {
		return 0, false
	}
	f := v.Elem().FieldByName("dropped")
	if !f.IsValid() || !f.CanUint() {
		return 0, false
	}
	return uint32(f.Uint()), true
}

//go:norace
func (w *world) oracle(dropped uint32, haveDropped bool) {
	r := w.r
	firstSd := w.firstShutdownInv()
	sort.Slice(w.ops, func(i, j int) bool { return w.ops[i].inv < w.ops[j].inv })
	// classification context of an operation, for known-finding signatures
	ctxOf := func(op *opCall) string {
		res := "plain"
		rank := map[string]int{"plain": 0, "after-shutdown": 1, "after-failed-shutdown": 2, "overlaps-shutdown": 3, "overlaps-given-up-shutdown": 3, "overlaps-running-shutdown": 4}
		for _, o := range w.ops {
			if o == op || o.kind != "shutdown" {
				continue
			}
			c := "plain"
			switch {
			case o.inv < op.ret && (o.ret == 0 || o.ret > op.inv):
				c = "overlaps-shutdown" // o was in progress at some moment of op
				if op.kind == "shutdown" && op.level == "sp" && o.level == "sp" {
					// Two Shutdown calls on the processor itself: the later one waits in the sync.Once
					// for the executing one, so it can only return early if that one gave up on its
					// context (known finding K1). Returning while the executing call is still running
					// without having given up is a different failure.
					if o.ret != 0 && o.err != nil {
						c = "overlaps-given-up-shutdown"
					} else {
						c = "overlaps-running-shutdown"
					}
				}
			case o.ret != 0 && o.ret < op.inv && o.err != nil:
				c = "after-failed-shutdown"
			case o.ret != 0 && o.ret < op.inv:
				c = "after-shutdown"
			}
			if rank[c] > rank[res] {
				res = c
			}
		}
		return res
	}
	missing := map[string]string{}
	nSampledEnded := 0
	neverExported := 0
	for _, n := range w.order {
		si := w.spans[n]
		if si.sampled && si.endRet != 0 {
			nSampledEnded++
			if si.exported == 0 {
				neverExported++
			}
		}
	}
	for _, op := range w.ops {
		if op.ret == 0 || op.err != nil {
			continue
		}
		oc := ctxOf(op)
		for _, n := range w.order {
			si := w.spans[n]
			if !si.sampled || si.endRet == 0 || si.endRet >= op.inv {
				continue
			}
			if firstSd != 0 && si.endRet >= firstSd {
				continue // span racing with / following a Shutdown invocation: not accepted by contract
			}
			if si.exported > 0 && si.firstExp < op.ret {
				continue
			}
			if si.exported > 0 {
				r.Violate(prop, "not-exported-at-return", fmt.Sprintf("not-exported-at-return/%s-%s/%s", op.kind, op.level, oc),
					"span %s (End returned at %d) was handed to the exporter only at %d, after %s (invoked %d) returned nil at %d", n, si.endRet, si.firstExp, op.kind, op.inv, op.ret)
				continue
			}
			if w.blocking {
				r.Violate(prop, "lost-span", fmt.Sprintf("lost-span/%s-%s/%s", op.kind, op.level, oc),
					"blocking mode: span %s (End returned at %d) never reached the exporter although %s (invoked %d) returned nil at %d", n, si.endRet, op.kind, op.inv, op.ret)
				continue
			}
			sg := fmt.Sprintf("%s-%s/%s", op.kind, op.level, oc)
			if old, ok := missing[n]; !ok || (!strings.HasSuffix(old, "/plain") && strings.HasSuffix(sg, "/plain")) {
				missing[n] = sg
				r.Log("missing %s at %s@%d ctx=%s", n, op.kind, op.ret, oc)
			}
			// non-blocking: may have been dropped; settled by the counter below
		}
	}
	if haveDropped {
		if w.blocking && dropped != 0 {
			r.Violate(prop, "drop-in-blocking-mode", "drop-in-blocking-mode", "drop counter = %d in blocking mode", dropped)
		}
		if !w.blocking {
			var plainIDs, allIDs []string
			plainSig, otherSig := "", ""
			for id, sg := range missing {
				allIDs = append(allIDs, id)
				if strings.HasSuffix(sg, "/plain") || strings.HasSuffix(sg, "/after-shutdown") {
					plainIDs = append(plainIDs, id)
					if sg > plainSig {
						plainSig = sg
					}
				} else if sg > otherSig {
					otherSig = sg
				}
			}
			sort.Strings(plainIDs)
			sort.Strings(allIDs)
			if len(plainIDs) > int(dropped) {
				r.Violate(prop, "lost-span", "lost-span/uncounted/"+plainSig,
					"%d span(s) %v ended before a successful flush/shutdown were never exported but only %d drop(s) were counted", len(plainIDs), plainIDs, dropped)
			} else if len(allIDs) > int(dropped) {
				r.Violate(prop, "lost-span", "lost-span/uncounted/"+otherSig,
					"%d span(s) %v ended before a successful flush/shutdown were never exported but only %d drop(s) were counted", len(allIDs), allIDs, dropped)
			}
			if int(dropped) > neverExported {
				r.Violate(prop, "overcounted-drop", "overcounted-drop", "drop counter %d exceeds the %d ended sampled spans that never reached the exporter", dropped, neverExported)
			}
			nFlush := 0
			for _, op := range w.ops {
				if op.kind == "flush" {
					nFlush++
				}
			}
			if dropped > 0 && nSampledEnded+nFlush+w.pendingEnds() <= w.q {
				r.Violate(prop, "spurious-drop", "spurious-drop", "%d drop(s) although only %d spans and %d flush markers ever competed for a queue of %d", dropped, nSampledEnded, nFlush, w.q)
			}
			if dropped > 0 {
				r.Probe("queue-full-drop")
			}
		}
	} else if len(missing) > 0 && !w.blocking {
		r.Probe("missing-without-counter")
	}
	// nothing is exported after a Shutdown that returned nil
	for _, op := range w.ops {
		if op.kind != "shutdown" || op.ret == 0 || op.err != nil {
			continue
		}
		for _, e := range w.exports {
			if e.beg > op.ret {
				r.Violate(prop, "export-after-shutdown", fmt.Sprintf("export-after-shutdown/%s/%s", op.level, ctxOf(op)),
					"ExportSpans %v began at %d after Shutdown (invoked %d) returned nil at %d", e.names, e.beg, op.inv, op.ret)
			}
		}
	}
	if w.sdCalls > 1 {
		r.Probe("exporter-shutdown-twice") // C15's business
	}
	if len(w.exports) > 1 {
		r.Probe("multi-export")
	}
}

//go:norace
func (w *world) pendingEnds() int {
	n := 0
	for _, name := range w.order {
		if si := w.spans[name]; si.sampled && si.endInv != 0 && si.endRet == 0 {
			n++
		}
	}
	return n
}

//go:norace
func keys(m map[string]bool) []string {
	var out []string
	for k := range m {
		out = append(out, k)
	}
	sort.Strings(out)
	return out
}
