// Engine spanlin: property C10 (a span ends exactly once; tracing API safe under concurrent use).
// Recorded invoke/return histories of operations on shared spans are checked for linearizability with
// porcupine against a small sequential span model.
package spanlin

import (
	"context"
	"errors"
	"fmt"
	"io"
	rtrace "runtime/trace"
	"sort"
	"strings"
	"testing"
	"time"

	"github.com/anishathalye/porcupine"

	"go.opentelemetry.io/otel"
	"go.opentelemetry.io/otel/attribute"
	"go.opentelemetry.io/otel/codes"
	sdktrace "go.opentelemetry.io/otel/sdk/trace"
	"go.opentelemetry.io/otel/trace"

	"verif/simdrv"
	"verif/simrt"
)

const prop = "C10"

type engine struct{}

//go:norace
func (engine) Name() string { return "spanlin" }

// RaceProps: the properties that demand race freedom; judged by the race-detector build of this engine.
//
//go:norace
func (engine) RaceProps() []string { return []string{"C10"} }

//go:norace
func TestWorker(t *testing.T) { simdrv.Worker(t, engine{}) }

var tracing bool

// Pre switches Go execution tracing on or off as a function of the seed (blocks of 32 seeds), outside
// the bubble. With tracing on, every span carries a runtime/trace task, which arms the unlock/relock
// window in End.
//
//go:norace
func (engine) Pre(r *simdrv.Run) {
	want := (r.Tape.Seed/32)%2 == 1
	if want == tracing {
		return
	}
	if want {
		if err := rtrace.Start(io.Discard); err != nil {
			panic(err)
		}
	} else {
		rtrace.Stop()
	}
	tracing = want
}

// ---- sequential reference model ----

type state struct {
	Ended    bool
	Name     string
	Code     int
	Desc     string
	Attrs    map[string]string
	Events   []string
	Links    []string
	Children int
}

//go:norace
func (s state) enc() string {
	keys := make([]string, 0, len(s.Attrs))
	for k := range s.Attrs {
		keys = append(keys, k)
	}
	sort.Strings(keys)
	var b strings.Builder
	fmt.Fprintf(&b, "%v|%s|%d|%s|", s.Ended, s.Name, s.Code, s.Desc)
	for _, k := range keys {
		fmt.Fprintf(&b, "%s=%s,", k, s.Attrs[k])
	}
	fmt.Fprintf(&b, "|%s|%s|%d", strings.Join(s.Events, ","), strings.Join(s.Links, ","), s.Children)
	return b.String()
}

//go:norace
func (s state) clone() state {
	c := s
	c.Attrs = map[string]string{}
	for k, v := range s.Attrs {
		c.Attrs[k] = v
	}
	c.Events = append([]string{}, s.Events...)
	c.Links = append([]string{}, s.Links...)
	return c
}

type opIn struct {
	Span int
	Kind string
	KVs  [][2]string // setattrs
	Arg  string      // event / link / name / error message / status description
	Code int         // status code (0 unset, 1 error, 2 ok)
	Nth  int
	Task string
	// Lax: the provider's Shutdown had been invoked before this operation returned (shutdown runs only): an
	// End of a live span then need not be delivered, a child may come from the no-op tracer
	Lax bool
}

type opOut struct {
	Delivered int    // End: number of OnEnd deliveries this call made per processor (0 or 1 expected)
	Snap      string // End: encoded delivered snapshot
	Recording bool   // IsRecording
	ChildNoop bool   // child: the span that Start returned is not an SDK span (no-op tracer after provider Shutdown)
}

// curAttrLimit is the AttributeCountLimit of the run being checked (0: the default of 128, never reached).
var curAttrLimit int

type modelState struct {
	s   state
	key string
}

//go:norace
func step(stI, inI, outI interface{}) (bool, interface{}) {
	st := stI.(modelState).s
	in := inI.(opIn)
	out := outI.(opOut)
	switch in.Kind {
	case "end":
		if st.Ended {
			return out.Delivered == 0, stI
		}
		n := st.clone()
		n.Ended = true
		if out.Delivered == 0 && in.Lax {
			return true, modelState{n, n.enc()} // ended while the provider was shutting down: nobody left to tell
		}
		if out.Delivered != 1 {
			return false, stI
		}
		return out.Snap == n.enc(), modelState{n, n.enc()}
	case "isrecording":
		return out.Recording == !st.Ended, stI
	}
	if st.Ended {
		return true, stI // every mutator is a no-op on an ended span
	}
	n := st.clone()
	switch in.Kind {
	case "setattrs":
		// with an attribute count limit: an update of a key the span already has always applies, a new key
		// is kept while the span has fewer than the limit, otherwise dropped (in argument order)
		for _, kv := range in.KVs {
			if _, has := n.Attrs[kv[0]]; has || curAttrLimit == 0 || len(n.Attrs) < curAttrLimit {
				n.Attrs[kv[0]] = kv[1]
			}
		}
	case "addevent":
		n.Events = append(n.Events, in.Arg)
	case "recorderror":
		if in.Code == 1 {
			break // Error() panicked before anything was recorded
		}
		n.Events = append(n.Events, "exception:"+in.Arg)
	case "addlink":
		n.Links = append(n.Links, in.Arg)
	case "setname":
		n.Name = in.Arg
	case "setstatus":
		if in.Code >= n.Code {
			n.Code = in.Code
			n.Desc = ""
			if in.Code == 1 {
				n.Desc = in.Arg
			}
		}
	case "child":
		if out.ChildNoop {
			if !in.Lax {
				return false, stI // a no-op child although the provider had not been shut down
			}
		} else {
			n.Children++
		}
	}
	return true, modelState{n, n.enc()}
}

var model = porcupine.Model{
	Init: func() interface{} { return modelState{} },
	Step: step,
	Equal: func(a, b interface{}) bool {
		return a.(modelState).key == b.(modelState).key
	},
	Partition: func(h []porcupine.Operation) [][]porcupine.Operation {
		m := map[int][]porcupine.Operation{}
		var ids []int
		for _, op := range h {
			id := op.Input.(opIn).Span
			if _, ok := m[id]; !ok {
				ids = append(ids, id)
			}
			m[id] = append(m[id], op)
		}
		sort.Ints(ids)
		var out [][]porcupine.Operation
		for _, id := range ids {
			out = append(out, m[id])
		}
		return out
	},
	DescribeOperation: func(in, out interface{}) string {
		return fmt.Sprintf("%+v -> %+v", in, out)
	},
}

// ---- recording processor ----

type delivery struct {
	span  int
	task  string
	snap  string
	stamp uint64
	ro    sdktrace.ReadOnlySpan
	end   time.Time
}

type recProc struct {
	w   *world
	idx int
}

//go:norace
func (p *recProc) OnStart(_ context.Context, s sdktrace.ReadWriteSpan) {
	// A processor may keep the span it is shown at start and end it from another goroutine: for one child
	// span in three a goroutine does so while Start is still finishing (race oracle; after seeded change
	// C10-h). Child spans are not part of the model.
	if p.idx == 0 && s.Name() == "child" && p.w.sim.Draw(3) == 0 {
		simrt.Go(simdrv.PtStub, func() {
			simrt.Yield(simdrv.PtStub)
			s.End()
		})
	}
}

//go:norace
func (p *recProc) Shutdown(context.Context) error { return nil }

//go:norace
func (p *recProc) ForceFlush(context.Context) error { return nil }

//go:norace
func (p *recProc) OnEnd(s sdktrace.ReadOnlySpan) {
	w := p.w
	id, ok := w.spanIdx[s.SpanContext().SpanID()]
	if !ok {
		return // a child span
	}
	d := &delivery{span: id, task: w.sim.CurrentTask(), snap: encSnap(s, w.names[id]), stamp: w.sim.Stamp(), ro: s, end: s.EndTime()}
	w.deliv[p.idx] = append(w.deliv[p.idx], d)
	w.r.Log("%d onend proc=%d span=%d task=%s snap=%s", d.stamp, p.idx, id, d.task, d.snap)
	if p.idx == 0 {
		if cur := w.curEnd[d.task]; cur != nil {
			cur.Delivered++
			cur.Snap = d.snap
		}
	}
}

//go:norace
func encSnap(s sdktrace.ReadOnlySpan, initName string) string {
	st := state{Ended: !s.EndTime().IsZero(), Name: s.Name(), Attrs: map[string]string{}, Children: s.ChildSpanCount()}
	if st.Name == initName {
		st.Name = ""
	}
	switch s.Status().Code {
	case codes.Error:
		st.Code = 1
	case codes.Ok:
		st.Code = 2
	}
	st.Desc = s.Status().Description
	for _, kv := range s.Attributes() {
		st.Attrs[string(kv.Key)] = kv.Value.Emit()
	}
	for _, e := range s.Events() {
		name := e.Name
		if name == "exception" {
			for _, a := range e.Attributes {
				if a.Key == "exception.message" {
					name = "exception:" + a.Value.AsString()
				}
			}
		}
		st.Events = append(st.Events, name)
	}
	for _, l := range s.Links() {
		id := "?"
		for _, a := range l.Attributes {
			if a.Key == "id" {
				id = a.Value.AsString()
			}
		}
		st.Links = append(st.Links, id)
	}
	return st.enc()
}

// extraProc is a processor that tasks register and unregister while spans end. It sits in front of the
// recording processors in the provider's list, so removing it shifts them.
type extraProc struct {
	w    *world
	id   int
	seen map[string]int
	bySp map[int]int // deliveries per shared span (spans are renamed by SetName: the name is no identity)
	// registration at run time (reg-extra) and first unregistration (unreg-extra): invoke / return stamps
	regInv, regRet uint64
	unInv, unRet   uint64
}

//go:norace
func (p *extraProc) OnStart(context.Context, sdktrace.ReadWriteSpan) {}

//go:norace
func (p *extraProc) Shutdown(context.Context) error { return nil }

//go:norace
func (p *extraProc) ForceFlush(context.Context) error { return nil }

//go:norace
func (p *extraProc) OnEnd(s sdktrace.ReadOnlySpan) {
	p.seen[s.SpanContext().SpanID().String()]++ // (by identity: names change and children share one)
	if i, ok := p.w.spanIdx[s.SpanContext().SpanID()]; ok {
		if p.bySp == nil {
			p.bySp = map[int]int{}
		}
		p.bySp[i]++
	}
	simrt.Yield(simdrv.PtStub) // a processor takes its time: the End that called it may be overtaken here
}

type world struct {
	r       *simdrv.Run
	sim     *simrt.Sim
	spanIdx map[trace.SpanID]int
	names   []string
	deliv   [][]*delivery
	curEnd  map[string]*opOut
	hist    []porcupine.Operation
	endRets map[int][]uint64 // per span: stamps at which End calls returned
	shutInv uint64           // stamp at which the provider's Shutdown was invoked (0: never)
}

// endedBeforeShutdown: an End of the span has returned before the provider's Shutdown (if any) was invoked, and
// no other End of the span was under way at that moment (the call that ends the span is the one that delivers
// it, and it may be a call that is overtaken by the one that returns first) - the deliveries of such a span
// are owed in full.
//
//go:norace
func (w *world) endedBeforeShutdown(sp int) bool {
	owed := false
	for _, o := range w.hist {
		in := o.Input.(opIn)
		if in.Span != sp || in.Kind != "end" {
			continue
		}
		switch {
		case w.shutInv == 0 || uint64(o.Return) < w.shutInv:
			owed = true
		case uint64(o.Call) < w.shutInv:
			return false // under way when Shutdown was invoked
		}
	}
	return owed
}

// panickyErr is an error whose Error method panics.
type panickyErr struct{}

//go:norace
func (panickyErr) Error() string { panic("Error() of a broken error value") }

type planOp struct {
	in    opIn
	sleep bool
}

//go:norace
func (engine) Body(r *simdrv.Run) {
	w := &world{r: r, spanIdx: map[trace.SpanID]int{}, curEnd: map[string]*opOut{}, endRets: map[int][]uint64{}}
	nSpans := 1 + r.Cfg(3)
	nTasks := 2 + r.Cfg(4)
	nProcs := 1 + r.Cfg(2)
	// a small attribute count limit makes SetAttributes take its in-place update path (after seeded change C10-f)
	curAttrLimit = []int{0, 0, 2, 3}[r.Cfg(4)]
	withExtras := r.Cfg(3) == 0 // provider methods (Register/Unregister of other processors) race with the span methods
	uniq := 0
	u := func(p string) string { uniq++; return fmt.Sprintf("%s%d", p, uniq) }
	plans := make([][]planOp, nTasks)
	for t := range plans {
		n := 3 + r.Cfg(8)
		for i := 0; i < n; i++ {
			in := opIn{Span: r.Cfg(nSpans), Task: fmt.Sprintf("t%d", t), Nth: i}
			switch r.Cfg(13) {
			case 12:
				// a getter of the ReadOnlySpan face of the same object, or the provider's ForceFlush: no effect
				// on the model, but they run concurrently with the mutators (race oracle, deadlocks)
				in.Kind, in.Code = "read", r.Cfg(10)
			case 0, 1, 2:
				in.Kind = "end"
				in.Code = r.Cfg(5) // 0,1: End(); 2: End(WithStackTrace(true)); 3: End(WithTimestamp(t)); 4: deferred End of a panicking function
				if in.Code == 4 {
					in.Arg = u("panic")
				}
			case 3, 4:
				in.Kind = "setattrs"
				k := 2 + r.Cfg(2)
				for j := 0; j < k; j++ {
					in.KVs = append(in.KVs, [2]string{fmt.Sprintf("k%d", r.Cfg(4)), u("v")})
				}
			case 5:
				in.Kind, in.Arg = "addevent", u("ev")
			case 6:
				in.Kind, in.Arg = "addlink", u("ln")
			case 7:
				in.Kind, in.Code = "setstatus", r.Cfg(3)
				in.Arg = u("desc")
			case 8:
				in.Kind, in.Arg = "setname", u("name")
			case 9:
				in.Kind, in.Arg = "recorderror", u("err")
				if r.Cfg(5) == 0 {
					// an error value whose Error method panics (a typed nil pointer, say): the panic reaches the
					// caller, the span is unchanged and stays usable (after seeded change C10-l, which releases
					// the span lock explicitly instead of by defer: every later call on the span blocks)
					in.Code = 1
				}
			case 10:
				in.Kind = "isrecording"
			default:
				in.Kind = "child"
			}
			if withExtras && r.Cfg(6) == 0 {
				in.Kind = []string{"unreg-extra", "unreg-extra", "reg-extra"}[r.Cfg(3)]
				in.Code = r.Cfg(3)
			}
			plans[t] = append(plans[t], planOp{in: in, sleep: r.Cfg(8) == 0})
		}
	}
	// In one run in six a task shuts the provider down while the others go on (after seeded change C10-j, which
	// clears the published processor list in place at the end of Shutdown: an End that is walking it panics).
	if r.Cfg(6) == 0 {
		t := r.Cfg(nTasks)
		plans[t][r.Cfg(len(plans[t]))].in.Kind = "provider-shutdown"
		r.Res.Config["provider_shutdown"] = true
		// (no End deferred by a panicking function in these runs: with execution tracing on, its outcome
		// "no delivery" would have two explanations that the model cannot tell apart)
		for _, pl := range plans {
			for i := range pl {
				if pl[i].in.Kind == "end" && pl[i].in.Code == 4 {
					pl[i].in.Code = 0
				}
			}
		}
	}
	r.Res.Config["spans"] = nSpans
	r.Res.Config["procs"] = nProcs
	r.Res.Config["extra_processors"] = withExtras
	r.Res.Config["runtime_trace"] = tracing
	r.Res.Config["plans"] = fmt.Sprintf("%+v", plans)
	if tracing {
		r.Probe("runtime-trace-on")
	}

	cfg := r.DrawSched([]time.Duration{time.Nanosecond, time.Millisecond}, time.Hour, 20000)
	sim := r.Start(cfg)
	w.sim = sim
	otel.SetErrorHandler(otel.ErrorHandlerFunc(func(error) {}))

	var opts []sdktrace.TracerProviderOption
	var extras []*extraProc
	var lateProcs []*extraProc // processors registered at run time, never unregistered
	if withExtras {
		for i := 0; i < 3; i++ {
			e := &extraProc{w: w, id: i, seen: map[string]int{}}
			extras = append(extras, e)
			if i < 2 {
				opts = append(opts, sdktrace.WithSpanProcessor(e)) // two in front of the recording processors
			}
		}
	}
	w.deliv = make([][]*delivery, nProcs)
	for i := 0; i < nProcs; i++ {
		opts = append(opts, sdktrace.WithSpanProcessor(&recProc{w: w, idx: i}))
	}
	if curAttrLimit > 0 {
		lim := sdktrace.NewSpanLimits()
		lim.AttributeCountLimit = curAttrLimit
		opts = append(opts, sdktrace.WithRawSpanLimits(lim))
	}
	r.Res.Config["attribute_count_limit"] = curAttrLimit
	tp := sdktrace.NewTracerProvider(opts...)
	tracer := tp.Tracer("spanlin")
	spans := make([]trace.Span, nSpans)
	ctxs := make([]context.Context, nSpans)
	for i := range spans {
		name := fmt.Sprintf("span%d", i)
		ctxs[i], spans[i] = tracer.Start(context.Background(), name)
		w.spanIdx[spans[i].SpanContext().SpanID()] = i
		w.names = append(w.names, name)
	}

	for t, plan := range plans {
		t, plan := t, plan
		name := fmt.Sprintf("t%d", t)
		sim.Spawn(name, func() {
			for _, p := range plan {
				if p.sleep {
					simrt.Sleep(time.Millisecond, simdrv.PtSleep)
				}
				simrt.Yield(simdrv.PtOp)
				in := p.in
				sp := spans[in.Span]
				out := opOut{}
				call := sim.Stamp()
				r.Log("%d invoke %s span=%d %s %v %s code=%d", call, name, in.Span, in.Kind, in.KVs, in.Arg, in.Code)
				switch in.Kind {
				case "end":
					w.curEnd[name] = &out
					switch in.Code {
					case 4:
						// "defer span.End()" in a function that panics: End records the panic as an exception event,
						// ends the span and lets the panic go on (after seeded change C10-m, which drops the span
						// lock while it formats the panic value and does not look again whether the span still records)
						r.Fault("end-deferred-by-a-panicking-function")
						func() {
							defer func() { _ = recover() }()
							defer sp.End()
							panic(in.Arg)
						}()
					case 2:
						sp.End(trace.WithStackTrace(true))
					case 3:
						sp.End(trace.WithTimestamp(time.Date(2001, 2, 3, 4, 5, 6, 0, time.UTC)))
					default:
						sp.End()
					}
					delete(w.curEnd, name)
				case "setattrs":
					var kvs []attribute.KeyValue
					for _, kv := range in.KVs {
						kvs = append(kvs, attribute.String(kv[0], kv[1]))
					}
					sp.SetAttributes(kvs...)
				case "addevent":
					sp.AddEvent(in.Arg)
				case "addlink":
					sp.AddLink(trace.Link{Attributes: []attribute.KeyValue{attribute.String("id", in.Arg)}})
				case "setstatus":
					sp.SetStatus([]codes.Code{codes.Unset, codes.Error, codes.Ok}[in.Code], in.Arg)
				case "setname":
					sp.SetName(in.Arg)
				case "recorderror":
					if in.Code == 1 {
						r.Fault("record-error-whose-Error-panics")
						func() {
							defer func() { _ = recover() }()
							sp.RecordError(panickyErr{})
						}()
						break
					}
					sp.RecordError(errors.New(in.Arg))
				case "isrecording":
					out.Recording = sp.IsRecording()
				case "child":
					_, c := tp.Tracer(fmt.Sprintf("child%d", in.Nth%2)).Start(ctxs[in.Span], "child")
					_, isSDK := c.(sdktrace.ReadOnlySpan)
					out.ChildNoop = !isSDK
				case "provider-shutdown":
					if w.shutInv == 0 {
						w.shutInv = call
					}
					r.Fault("provider-shutdown-during-span-ops")
					_ = tp.Shutdown(context.Background())
				case "read":
					if ro, ok := sp.(sdktrace.ReadOnlySpan); ok {
						switch in.Code {
						case 0:
							_ = ro.Name()
						case 1:
							_ = ro.Attributes()
						case 2:
							_ = ro.Events()
						case 3:
							_ = ro.Links()
						case 4:
							_ = ro.Status()
						case 5:
							_ = ro.EndTime()
						case 6:
							_ = ro.ChildSpanCount()
						case 7:
							_ = ro.DroppedAttributes() + ro.DroppedEvents() + ro.DroppedLinks()
						case 8:
							_ = tp.ForceFlush(context.Background())
						default:
							_ = sp.SpanContext()
							_ = sp.TracerProvider()
						}
					}
				case "unreg-extra":
					x := extras[in.Code]
					first := x.unInv == 0
					if first {
						x.unInv = call
					}
					tp.UnregisterSpanProcessor(x)
					if first {
						x.unRet = sim.Stamp()
					}
					r.Fault("unregister-processor-during-span-ops")
				case "reg-extra":
					x := &extraProc{w: w, id: 9 + len(lateProcs), seen: map[string]int{}, regInv: call}
					lateProcs = append(lateProcs, x)
					tp.RegisterSpanProcessor(x)
					x.regRet = sim.Stamp()
				}
				ret := sim.Stamp()
				r.Log("%d return %s %+v", ret, name, out)
				if in.Kind == "end" {
					w.endRets[in.Span] = append(w.endRets[in.Span], ret)
				}
				in.Lax = w.shutInv != 0
				if in.Kind != "unreg-extra" && in.Kind != "reg-extra" && in.Kind != "read" && in.Kind != "provider-shutdown" {
					if in.Kind == "end" && in.Code == 4 {
						// End deferred by a panicking function = record the panic as an exception event, then end the
						// span: two steps (with execution tracing on, End gives the span lock up in between, so other
						// operations may take effect there), entered into the history as two operations over the same
						// interval. Porcupine may also order them the other way round, which the code never does:
						// laxer than the code, never stricter.
						ev := in
						ev.Kind, ev.Arg, ev.Code = "addevent", "exception:"+in.Arg, 0
						w.hist = append(w.hist, porcupine.Operation{ClientId: 100 + t, Input: ev, Call: int64(call), Output: opOut{}, Return: int64(ret)})
						in.Code = 0
					}
					w.hist = append(w.hist, porcupine.Operation{ClientId: t, Input: in, Call: int64(call), Output: out, Return: int64(ret)})
				}
				r.Res.Ops++
			}
		})
	}
	out := sim.Run()
	r.Finish(out)
	r.Res.NonTrivial = sim.Switches > 0 && len(sim.TaskNames()) >= 2
	if r.Res.Outcome == "harness-panic" {
		return // the simulator lost track of the system: reported as harness trouble, never as a violation
	}
	switch out.Kind {
	case simrt.Budget:
		return
	case simrt.Fatal:
		r.Violate(prop, "panic", "panic", "%s", out.Detail)
		return
	case simrt.Deadlock:
		r.Violate(prop, "deadlock", "deadlock", "%s", out.Detail)
		return
	case simrt.Hang:
		r.Violate(prop, "hang", "hang", "%s", out.Detail)
		return
	}
	// direct consequences first (they give the most readable reports)
	for pi, ds := range w.deliv {
		per := map[int][]*delivery{}
		for _, d := range ds {
			per[d.span] = append(per[d.span], d)
		}
		for sp := 0; sp < nSpans; sp++ {
			n := len(per[sp])
			if n > 1 {
				r.Violate(prop, "multiple-onend", fmt.Sprintf("multiple-onend/trace=%v", tracing), "span %d was delivered %d times to processor %d (tasks %s and %s, end times %v and %v)", sp, n, pi, per[sp][0].task, per[sp][1].task, per[sp][0].end, per[sp][1].end)
			}
			if n == 0 && w.endedBeforeShutdown(sp) {
				r.Violate(prop, "no-onend", "no-onend", "End of span %d returned but processor %d never received it", sp, pi)
			}
			for _, d := range per[sp] {
				if now := encSnap(d.ro, w.names[sp]); now != d.snap {
					r.Violate(prop, "snapshot-mutated", "snapshot-mutated", "span %d: snapshot delivered to processor %d was %q and later reads %q", sp, pi, d.snap, now)
				}
				if d.end.IsZero() {
					r.Violate(prop, "no-end-time", "no-end-time", "span %d delivered without an end time", sp)
				}
			}
			if pi > 0 && n == 1 && len(w.deliv[0]) > 0 {
				for _, d0 := range w.deliv[0] {
					if d0.span == sp && d0.snap != per[sp][0].snap {
						r.Violate(prop, "processors-disagree", "processors-disagree", "span %d: processor 0 got %q, processor %d got %q", sp, d0.snap, pi, per[sp][0].snap)
					}
				}
			}
		}
	}
	for _, e := range extras {
		for name, n := range e.seen {
			if n > 1 {
				r.Violate(prop, "multiple-onend", fmt.Sprintf("multiple-onend/extra/trace=%v", tracing), "span %s was delivered %d times to a processor that was being unregistered meanwhile", name, n)
			}
		}
	}
	// processors that come and go: a processor whose registration had returned before any End of a span was
	// invoked sees that span exactly once; one whose unregistration had returned by then never sees it
	firstEndCall := map[int]uint64{}
	for _, o := range w.hist {
		if in := o.Input.(opIn); in.Kind == "end" {
			if c, ok := firstEndCall[in.Span]; !ok || uint64(o.Call) < c {
				firstEndCall[in.Span] = uint64(o.Call)
			}
		}
	}
	for sp, c := range firstEndCall {
		if !w.endedBeforeShutdown(sp) {
			continue
		}
		for _, x := range lateProcs {
			if x.regRet != 0 && x.regRet < c && x.bySp[sp] != 1 {
				r.Violate(prop, "no-onend", "no-onend/registered-at-run-time", "span %d (first End invoked at %d) was delivered %d times to the processor whose RegisterSpanProcessor returned at %d", sp, c, x.bySp[sp], x.regRet)
			}
		}
		for _, x := range extras {
			if x.unRet != 0 && x.unRet < c && x.bySp[sp] != 0 {
				r.Violate(prop, "onend-after-unregister", "onend-after-unregister", "span %d (first End invoked at %d) was delivered to processor %d whose UnregisterSpanProcessor returned at %d", sp, c, x.id, x.unRet)
			}
		}
	}
	for sp, rets := range w.endRets {
		if len(rets) > 0 && spans[sp].IsRecording() {
			r.Violate(prop, "recording-after-end", "recording-after-end", "span %d still reports IsRecording after End returned", sp)
		}
	}
	res := porcupine.CheckOperationsTimeout(model, w.hist, 2*time.Second)
	switch res {
	case porcupine.Illegal:
		r.Violate(prop, "not-linearizable", fmt.Sprintf("not-linearizable/trace=%v", tracing), "the history of %d operations on shared spans is not linearizable against the sequential span model", len(w.hist))
	case porcupine.Unknown:
		r.Probe("porcupine-timeout")
	default:
		r.Probe("porcupine-ok")
	}
	overlap := 0
	for i := range w.hist {
		for j := range w.hist {
			if i < j && w.hist[i].Call < w.hist[j].Return && w.hist[j].Call < w.hist[i].Return {
				overlap++
			}
		}
	}
	if overlap > 0 {
		r.Probe("overlapping-ops")
	}
	for sp := 0; sp < nSpans; sp++ {
		n := 0
		for i := range w.hist {
			for j := range w.hist {
				a, b := w.hist[i], w.hist[j]
				if i < j && a.Input.(opIn).Span == sp && b.Input.(opIn).Span == sp && a.Input.(opIn).Kind == "end" && b.Input.(opIn).Kind == "end" && a.Call < b.Return && b.Call < a.Return {
					n++
				}
			}
		}
		if n > 0 {
			r.Fault("racing-end-calls")
		}
	}
}
