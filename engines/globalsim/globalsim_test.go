//go:build verifsim

// Engine globalsim: property C16 (global providers forward to the installed SDK without loss or
// deadlock).
package globalsim

import (
	"context"
	"fmt"
	"go.opentelemetry.io/otel/attribute"
	"regexp"
	"sort"
	"strings"
	"testing"
	"time"

	"go.opentelemetry.io/otel"
	"go.opentelemetry.io/otel/metric"
	"go.opentelemetry.io/otel/propagation"
	sdkmetric "go.opentelemetry.io/otel/sdk/metric"
	"go.opentelemetry.io/otel/sdk/metric/metricdata"
	sdktrace "go.opentelemetry.io/otel/sdk/trace"
	"go.opentelemetry.io/otel/trace"

	"verif/simdrv"
	"verif/simrt"
)

const prop = "C16"

type engine struct{}

//go:norace
func (engine) Name() string { return "globalsim" }

// RaceProps: the properties that demand race freedom; judged by the race-detector build of this engine.
//
//go:norace
func (engine) RaceProps() []string { return []string{"C16"} }

//go:norace
func TestWorker(t *testing.T) { simdrv.Worker(t, engine{}) }

type instKey struct {
	meter string
	name  string
	kind  string // one of instKinds
}

//go:norace
func (k instKey) String() string { return k.meter + "/" + k.name + ":" + k.kind }

// handle is one instrument object handed out by the global API to one task.
type handle struct {
	key      instKey
	inv, ret uint64 // creation call
	ci       metric.Int64Counter
	cf       metric.Float64Counter
	ui       metric.Int64UpDownCounter
	hi       metric.Int64Histogram
	uf       metric.Float64UpDownCounter
	hf       metric.Float64Histogram
	gi       metric.Int64Gauge
	gf       metric.Float64Gauge
	obsI     metric.Int64Observable   // asynchronous kinds: oc ou og
	obsF     metric.Float64Observable // asynchronous kinds: fc fu fg
	m        metric.Meter             // the meter object the instrument was obtained from
	probeBit int
}

type measOp struct {
	h        *handle
	bit      int
	inv, ret uint64
	probe    bool
}

type cbReg struct {
	id             int
	key            instKey
	regInv, regRet uint64
	unInv, unRet   uint64
	reg            metric.Registration
	calls          []uint64 // stamps of invocations
	callColl       []uint64 // per invocation: invoke stamp of the collection (of the calling task) it ran for
}

type spanOp struct {
	name     string
	inv, ret uint64
	probe    bool
	th       *tracerHandle
}

// tracerHandle is one tracer object handed out by the global API and kept by a task.
type tracerHandle struct {
	name     string
	tr       trace.Tracer
	inv, ret uint64
}

type recProc struct {
	w     *world
	ended map[string]int
}

//go:norace
func (p *recProc) OnStart(context.Context, sdktrace.ReadWriteSpan) {}

//go:norace
func (p *recProc) OnEnd(s sdktrace.ReadOnlySpan) { p.ended[s.Name()]++ }

//go:norace
func (p *recProc) Shutdown(context.Context) error { return nil }

//go:norace
func (p *recProc) ForceFlush(context.Context) error { return nil }

type world struct {
	r       *simdrv.Run
	sim     *simrt.Sim
	handles []*handle
	meas    []*measOp
	cbs     []*cbReg
	spans   []*spanOp
	tracers []*tracerHandle
	nextBit map[instKey]int
	setMP   *simdrv.OpCall
	setTP   *simdrv.OpCall
	colls   []*simdrv.OpCall
}

// mergeInstall combines concurrent installations of the same SDK: installation is in progress from
// the earliest invocation and complete when the earliest call has returned.
//
//go:norace
func (w *world) mergeInstall(dst **simdrv.OpCall, o *simdrv.OpCall) {
	if *dst == nil {
		*dst = o
		return
	}
	if o.Inv < (*dst).Inv {
		(*dst).Inv = o.Inv
	}
	if o.Ret < (*dst).Ret {
		(*dst).Ret = o.Ret
	}
}

type planOp struct {
	kind  string // inst | add | regcb | unregcb | span | sleep
	held  bool   // go through the provider object the task obtained when it started (not a fresh global lookup)
	meter int
	name  int
	ikind int
	sleep time.Duration
}

// every instrument kind of the API: each has its own delegating type in internal/global/instruments.go
var instKinds = []string{"ci", "cf", "ui", "hi", "oc", "uf", "hf", "gi", "gf", "ou", "og", "fc", "fu", "fg"}
var asyncKinds = []string{"oc", "ou", "og", "fc", "fu", "fg"}

//go:norace
func isAsync(kind string) bool {
	for _, k := range asyncKinds {
		if k == kind {
			return true
		}
	}
	return false
}

//go:norace
func kindIndex(kind string) int {
	for i, k := range instKinds {
		if k == kind {
			return i
		}
	}
	return 0
}

//go:norace
func (engine) Body(r *simdrv.Run) {
	w := &world{r: r, nextBit: map[instKey]int{}}
	nTasks := 1 + r.Cfg(4)
	plans := make([][]planOp, nTasks)
	for t := range plans {
		n := 3 + r.Cfg(9)
		for i := 0; i < n; i++ {
			op := planOp{kind: []string{"inst", "inst", "add", "add", "add", "regcb", "unregcb", "span", "span", "gettracer", "inject"}[r.Cfg(11)], meter: r.Cfg(2), name: r.Cfg(3), ikind: r.Cfg(len(instKinds)), held: r.Cfg(3) == 0}
			if r.Cfg(6) == 0 {
				op.sleep = time.Millisecond
			}
			plans[t] = append(plans[t], op)
		}
	}
	// installer
	installOrder := r.Cfg(6)
	installAfter := r.Cfg(8) // number of yields before installing
	doMP, doTP := r.Cfg(8) != 0, r.Cfg(8) != 0
	collectDuring := r.Cfg(2) == 1
	r.Res.Config["plans"] = fmt.Sprintf("%+v", plans)
	r.Res.Config["install"] = fmt.Sprintf("order=%d after=%d mp=%v tp=%v collect-during=%v", installOrder, installAfter, doMP, doTP, collectDuring)

	sim := r.Start(r.DrawSched([]time.Duration{time.Nanosecond, time.Millisecond}, time.Hour, 30000))
	w.sim = sim
	otel.VerifResetGlobals()
	otel.SetErrorHandler(otel.ErrorHandlerFunc(func(error) {}))

	// two readers: their collections may overlap, and each must get every callback's observations
	// (after seeded change C16-g)
	reader := sdkmetric.NewManualReader()
	reader2 := sdkmetric.NewManualReader()
	sdkmp := sdkmetric.NewMeterProvider(sdkmetric.WithReader(reader), sdkmetric.WithReader(reader2))
	collObs := map[uint64]map[string]map[int]float64{} // collection invoke stamp -> instrument -> callback id -> value
	rp := &recProc{w: w, ended: map[string]int{}}
	sdktp := sdktrace.NewTracerProvider(sdktrace.WithSpanProcessor(rp))

	inflight := map[string]string{}
	curColl := map[string]uint64{} // collecting task -> collection invoke stamp
	mkCallback := func(cb *cbReg, h *handle) metric.Callback {
		return func(_ context.Context, o metric.Observer) error {
			cb.calls = append(cb.calls, sim.Stamp())
			cb.callColl = append(cb.callColl, curColl[sim.CurrentTask()])
			// every callback observes under its own attribute set, so that the collected data names it
			at := metric.WithAttributes(attribute.Int("cb", cb.id))
			if h.obsI != nil {
				o.ObserveInt64(h.obsI, int64(1000+cb.id), at)
			} else {
				o.ObserveFloat64(h.obsF, float64(1000+cb.id), at)
			}
			return nil
		}
	}
	heldMP := map[string]metric.MeterProvider{}
	newHandle := func(task string, op planOp) *handle {
		key := instKey{meter: fmt.Sprintf("m%d", op.meter), name: fmt.Sprintf("i%d", op.name), kind: instKinds[op.ikind]}
		key.name += "_" + key.kind // one instrument name per kind: no SDK-side kind conflicts
		h := &handle{key: key, inv: sim.Stamp()}
		m := otel.Meter(key.meter)
		if op.held && heldMP[task] != nil {
			m = heldMP[task].Meter(key.meter)
		}
		h.m = m
		switch key.kind {
		case "ci":
			h.ci, _ = m.Int64Counter(key.name)
		case "cf":
			h.cf, _ = m.Float64Counter(key.name)
		case "ui":
			h.ui, _ = m.Int64UpDownCounter(key.name)
		case "hi":
			h.hi, _ = m.Int64Histogram(key.name)
		case "uf":
			h.uf, _ = m.Float64UpDownCounter(key.name)
		case "hf":
			h.hf, _ = m.Float64Histogram(key.name)
		case "gi":
			h.gi, _ = m.Int64Gauge(key.name)
		case "gf":
			h.gf, _ = m.Float64Gauge(key.name)
		case "oc":
			h.obsI, _ = m.Int64ObservableCounter(key.name)
		case "ou":
			h.obsI, _ = m.Int64ObservableUpDownCounter(key.name)
		case "og":
			h.obsI, _ = m.Int64ObservableGauge(key.name)
		case "fc":
			h.obsF, _ = m.Float64ObservableCounter(key.name)
		case "fu":
			h.obsF, _ = m.Float64ObservableUpDownCounter(key.name)
		case "fg":
			h.obsF, _ = m.Float64ObservableGauge(key.name)
		}
		h.ret = sim.Stamp()
		w.handles = append(w.handles, h)
		r.Log("%d inst %s task=%s (invoked %d)", h.ret, key, task, h.inv)
		return h
	}
	measure := func(task string, h *handle, probe bool) {
		if isAsync(h.key.kind) {
			return
		}
		bit := w.nextBit[h.key]
		if bit >= 40 {
			return
		}
		w.nextBit[h.key] = bit + 1
		op := &measOp{h: h, bit: bit, probe: probe, inv: sim.Stamp()}
		w.meas = append(w.meas, op)
		v := int64(1) << bit
		ctx := context.Background()
		switch h.key.kind {
		case "ci":
			h.ci.Add(ctx, v)
		case "cf":
			h.cf.Add(ctx, float64(v))
		case "ui":
			h.ui.Add(ctx, v)
		case "hi":
			h.hi.Record(ctx, v)
		case "uf":
			h.uf.Add(ctx, float64(v))
		case "hf":
			h.hf.Record(ctx, float64(v))
		case "gi":
			// a gauge keeps the last value per attribute set: every measurement gets a set of its own
			h.gi.Record(ctx, v, metric.WithAttributes(attribute.Int("bit", bit)))
		case "gf":
			h.gf.Record(ctx, float64(v), metric.WithAttributes(attribute.Int("bit", bit)))
		}
		op.ret = sim.Stamp()
		r.Log("%d add %s bit=%d probe=%v task=%s (invoked %d)", op.ret, h.key, bit, probe, task, op.inv)
	}
	for t, plan := range plans {
		plan := plan
		name := fmt.Sprintf("u%d", t)
		sim.Spawn(name, func() {
			var mine []*handle
			var myCbs []*cbReg
			var myTracers []*tracerHandle
			// provider objects obtained once, up front (typically before the SDK is installed)
			tp0 := otel.GetTracerProvider()
			prop0 := otel.GetTextMapPropagator()
			heldMP[name] = otel.GetMeterProvider()
			for _, op := range plan {
				if op.sleep > 0 {
					simrt.Sleep(op.sleep, simdrv.PtSleep)
				}
				simrt.Yield(simdrv.PtOp)
				inflight[name] = op.kind
				switch op.kind {
				case "inst":
					mine = append(mine, newHandle(name, op))
				case "add":
					if len(mine) > 0 {
						measure(name, mine[(op.name+op.meter)%len(mine)], false)
					}
				case "regcb":
					var h *handle
					for _, x := range mine {
						if isAsync(x.key.kind) {
							h = x
						}
					}
					if h == nil {
						op.ikind = kindIndex(asyncKinds[(op.name+2*op.meter+len(mine))%len(asyncKinds)])
						h = newHandle(name, op)
						mine = append(mine, h)
					}
					cb := &cbReg{id: len(w.cbs), key: h.key, regInv: sim.Stamp()}
					w.cbs = append(w.cbs, cb)
					myCbs = append(myCbs, cb)
					// through the meter object the instrument came from (mixing a pre-installation instrument
					// with a post-installation meter is rejected by the SDK with an error, by design)
					var obs metric.Observable = h.obsI
					if h.obsI == nil {
						obs = h.obsF
					}
					reg, err := h.m.RegisterCallback(mkCallback(cb, h), obs)
					cb.reg = reg
					cb.regRet = sim.Stamp()
					if err != nil {
						r.Violate(prop, "register-callback-failed", "register-callback-failed", "RegisterCallback for %s on the meter that created it failed: %v", h.key, err)
						cb.reg = nil
						cb.unInv = cb.regRet // treat as not registered
					}
					r.Log("%d regcb cb=%d %s err=%v task=%s (invoked %d)", cb.regRet, cb.id, h.key, err, name, cb.regInv)
					// One time in five the task also registers a callback for the same instrument through the
					// OTHER global meter. Before installation the global meter accepts it; the SDK rejects it
					// when the registrations are handed over (an instrument of another meter), which must not
					// keep the other callbacks of that meter from being handed over, nor the installation from
					// returning (after seeded change C16-l, whose hand-over loop stalls on a rejected callback).
					if sim.Draw(5) == 0 {
						r.Fault("callback-registered-through-the-other-meter")
						otherName := "m1"
						if h.key.meter == "m1" {
							otherName = "m0"
						}
						_, ferr := otel.Meter(otherName).RegisterCallback(func(context.Context, metric.Observer) error { return nil }, obs)
						r.Log("%d regcb-foreign %s through %s err=%v task=%s", sim.Stamp(), h.key, otherName, ferr, name)
					}
				case "unregcb":
					for _, cb := range myCbs {
						if cb.unInv == 0 && cb.reg != nil {
							cb.unInv = sim.Stamp()
							err := cb.reg.Unregister()
							cb.unRet = sim.Stamp()
							r.Log("%d unregcb cb=%d err=%v task=%s (invoked %d)", cb.unRet, cb.id, err, name, cb.unInv)
							break
						}
					}
				case "inject":
					// the propagator object obtained before installation is used while installation may be
					// under way (race oracle; after seeded change C16-h)
					carrier := propagation.MapCarrier{}
					prop0.Inject(context.Background(), carrier)
					_ = prop0.Extract(context.Background(), carrier)
					_ = prop0.Fields()
				case "gettracer":
					th := &tracerHandle{name: fmt.Sprintf("t%d", op.meter), inv: sim.Stamp()}
					if op.held {
						th.tr = tp0.Tracer(th.name)
					} else {
						th.tr = otel.Tracer(th.name)
					}
					th.ret = sim.Stamp()
					w.tracers = append(w.tracers, th)
					myTracers = append(myTracers, th)
					r.Log("%d gettracer %s held-provider=%v task=%s (invoked %d)", th.ret, th.name, op.held, name, th.inv)
				case "span":
					sp := &spanOp{name: fmt.Sprintf("%s-s%d", name, len(w.spans)), inv: sim.Stamp()}
					w.spans = append(w.spans, sp)
					tr := otel.Tracer(fmt.Sprintf("t%d", op.meter))
					if op.held {
						tr = tp0.Tracer(fmt.Sprintf("t%d", op.meter))
					}
					if len(myTracers) > 0 && op.name != 0 {
						sp.th = myTracers[op.name%len(myTracers)] // a tracer object obtained earlier
						tr = sp.th.tr
					}
					_, s := tr.Start(context.Background(), sp.name)
					s.End()
					sp.ret = sim.Stamp()
					r.Log("%d span %s task=%s (invoked %d)", sp.ret, sp.name, name, sp.inv)
				}
				delete(inflight, name)
				r.Res.Ops++
			}
		})
	}
	obsOf := func(rm *metricdata.ResourceMetrics) map[string]map[int]float64 {
		out := map[string]map[int]float64{}
		note := func(k string, as attribute.Set, v float64) {
			if id, ok := as.Value("cb"); ok {
				if out[k] == nil {
					out[k] = map[int]float64{}
				}
				out[k][int(id.AsInt64())] += v // (+=: a value delivered twice shows)
			}
		}
		for _, sm := range rm.ScopeMetrics {
			for _, m := range sm.Metrics {
				k := sm.Scope.Name + "/" + m.Name
				switch d := m.Data.(type) {
				case metricdata.Sum[int64]:
					for _, dp := range d.DataPoints {
						note(k, dp.Attributes, float64(dp.Value))
					}
				case metricdata.Sum[float64]:
					for _, dp := range d.DataPoints {
						note(k, dp.Attributes, dp.Value)
					}
				case metricdata.Gauge[int64]:
					for _, dp := range d.DataPoints {
						note(k, dp.Attributes, float64(dp.Value))
					}
				case metricdata.Gauge[float64]:
					for _, dp := range d.DataPoints {
						note(k, dp.Attributes, dp.Value)
					}
				}
			}
		}
		return out
	}
	collectOn := func(task string, rd *sdkmetric.ManualReader) {
		o := &simdrv.OpCall{Kind: "collect", Task: task, Inv: sim.Stamp()}
		w.colls = append(w.colls, o)
		curColl[task] = o.Inv
		var rm metricdata.ResourceMetrics
		o.Err = rd.Collect(context.Background(), &rm)
		o.Ret = sim.Stamp()
		delete(curColl, task)
		collObs[o.Inv] = obsOf(&rm)
		r.Log("%d collect task=%s second-reader=%v err=%v (invoked %d)", o.Ret, task, rd == reader2, o.Err, o.Inv)
	}
	collect := func(task string) { collectOn(task, reader) }
	// a task of its own collects on the second reader at a drawn moment
	collectorAfter := r.Cfg(12)
	sim.Spawn("collector2", func() {
		for i := 0; i < collectorAfter; i++ {
			simrt.Yield(simdrv.PtOp)
		}
		n := 1 + sim.Draw(2)
		for i := 0; i < n; i++ {
			simrt.Yield(simdrv.PtOp)
			inflight["collector2"] = "collect"
			collectOn("collector2", reader2)
			delete(inflight, "collector2")
		}
	})
	sim.Spawn("installer", func() {
		for i := 0; i < installAfter; i++ {
			simrt.Yield(simdrv.PtOp)
		}
		// In a third of the runs the installer first sets each global to what it already is - documented as an
		// error that is logged and changes nothing: the real installation that follows must still take effect
		// (after seeded change C16-k, which moves the self-check inside the once-only delegation).
		if sim.Draw(3) == 0 {
			r.Fault("self-set-before-installation")
			inflight["installer"] = "self-set"
			otel.SetTracerProvider(otel.GetTracerProvider())
			simrt.Yield(simdrv.PtOp)
			otel.SetMeterProvider(otel.GetMeterProvider())
			simrt.Yield(simdrv.PtOp)
			otel.SetTextMapPropagator(otel.GetTextMapPropagator())
			delete(inflight, "installer")
		}
		steps := [][]string{{"mp", "tp", "prop"}, {"tp", "mp", "prop"}, {"prop", "mp", "tp"}, {"mp", "prop", "tp"}, {"tp", "prop", "mp"}, {"prop", "tp", "mp"}}[installOrder]
		for _, st := range steps {
			simrt.Yield(simdrv.PtOp)
			inflight["installer"] = "set-" + st
			switch st {
			case "mp":
				if doMP {
					o := &simdrv.OpCall{Kind: "setmp", Inv: sim.Stamp()}
					r.Log("%d SetMeterProvider-invoke", o.Inv)
					otel.SetMeterProvider(sdkmp)
					o.Ret = sim.Stamp()
					r.Log("%d SetMeterProvider-return", o.Ret)
					w.mergeInstall(&w.setMP, o)
				}
			case "tp":
				if doTP {
					o := &simdrv.OpCall{Kind: "settp", Inv: sim.Stamp()}
					r.Log("%d SetTracerProvider-invoke", o.Inv)
					otel.SetTracerProvider(sdktp)
					o.Ret = sim.Stamp()
					r.Log("%d SetTracerProvider-return", o.Ret)
					w.mergeInstall(&w.setTP, o)
				}
			case "prop":
				otel.SetTextMapPropagator(propagation.TraceContext{})
			}
			delete(inflight, "installer")
		}
		if collectDuring {
			simrt.Yield(simdrv.PtOp)
			inflight["installer"] = "collect"
			collect("installer")
			delete(inflight, "installer")
		}
	})
	// sometimes a second goroutine installs the same SDK concurrently (two initialisation paths racing):
	// once either call has returned, everything must forward
	if r.Cfg(3) == 0 {
		after2 := r.Cfg(8)
		r.Res.Config["second_installer_after"] = after2
		sim.Spawn("installer2", func() {
			for i := 0; i < after2; i++ {
				simrt.Yield(simdrv.PtOp)
			}
			inflight["installer2"] = "set-mp"
			if doMP {
				o := &simdrv.OpCall{Kind: "setmp", Inv: sim.Stamp()}
				r.Log("%d SetMeterProvider-invoke (second installer)", o.Inv)
				otel.SetMeterProvider(sdkmp)
				o.Ret = sim.Stamp()
				r.Log("%d SetMeterProvider-return (second installer)", o.Ret)
				w.mergeInstall(&w.setMP, o)
				r.Fault("concurrent-installers")
			}
			inflight["installer2"] = "set-tp"
			if doTP {
				o := &simdrv.OpCall{Kind: "settp", Inv: sim.Stamp()}
				otel.SetTracerProvider(sdktp)
				o.Ret = sim.Stamp()
				w.mergeInstall(&w.setTP, o)
			}
			delete(inflight, "installer2")
		})
	}
	var final metricdata.ResourceMetrics
	sim.Spawn("closer", func() {
		sim.JoinOthers(simdrv.PtOp)
		inflight["closer"] = "probe"
		// one probe measurement through every instrument object ever handed out
		for _, h := range w.handles {
			measure("closer", h, true)
		}
		for i, th := range w.tracers {
			sp := &spanOp{name: fmt.Sprintf("probe-s%d", i), inv: sim.Stamp(), probe: true, th: th}
			w.spans = append(w.spans, sp)
			_, s := th.tr.Start(context.Background(), sp.name)
			s.End()
			sp.ret = sim.Stamp()
			r.Log("%d probe-span %s through tracer obtained %d..%d", sp.ret, sp.name, th.inv, th.ret)
		}
		inflight["closer"] = "collect"
		collect("closer")
		o := &simdrv.OpCall{Kind: "collect", Task: "closer", Inv: sim.Stamp()}
		w.colls = append(w.colls, o)
		curColl["closer"] = o.Inv
		o.Err = reader.Collect(context.Background(), &final)
		o.Ret = sim.Stamp()
		r.Log("%d final-collect err=%v", o.Ret, o.Err)
		delete(inflight, "closer")
	})
	out := sim.Run()
	var pending []string
	pendingBy := map[string]string{}
	for k, v := range inflight {
		pending = append(pending, v)
		pendingBy[k] = v
	}
	sort.Strings(pending)
	r.Finish(out)
	r.Res.NonTrivial = sim.Switches > 0 && len(sim.TaskNames()) >= 2
	if r.Res.Outcome == "harness-panic" {
		return
	}
	switch out.Kind {
	case simrt.Budget:
		return
	case simrt.Fatal:
		r.Violate(prop, "panic", "panic", "%s", out.Detail)
		return
	case simrt.Deadlock:
		// signature: the calls of the tasks that form the lock cycle
		var inCycle []string
		for _, m := range regexp.MustCompile(`(\S+) waits@`).FindAllStringSubmatch(out.Detail, -1) {
			if c, ok := pendingBy[m[1]]; ok {
				inCycle = append(inCycle, c)
			} else {
				inCycle = append(inCycle, m[1])
			}
		}
		sort.Strings(inCycle)
		r.Violate(prop, "deadlock", "deadlock/"+strings.Join(inCycle, "+"), "%s (calls in progress: %v)", out.Detail, pending)
		return
	case simrt.Hang:
		r.Violate(prop, "hang", "hang/"+fmt.Sprint(pending), "calls %v never returned: %s", pending, out.Detail)
		return
	}

	// reach accounting
	if w.setMP != nil {
		for _, op := range w.meas {
			if op.ret != 0 && op.inv < w.setMP.Ret && op.ret > w.setMP.Inv {
				r.Fault("measurement-overlapping-installation")
			}
		}
		for _, h := range w.handles {
			if h.inv < w.setMP.Ret && h.ret > w.setMP.Inv {
				r.Fault("instrument-created-during-installation")
			}
		}
		for _, cb := range w.cbs {
			if cb.unInv != 0 && cb.unInv < w.setMP.Ret && cb.unRet > w.setMP.Inv {
				r.Fault("unregister-overlapping-installation")
			}
			if cb.regInv < w.setMP.Ret && cb.regRet > w.setMP.Inv {
				r.Fault("register-callback-overlapping-installation")
			}
		}
	}
	// ---- oracle ----
	// decode the final cumulative collection per (scope, metric)
	got := map[string]int64{}
	obsGot := map[string]map[int]float64{} // instrument -> callback id -> observed value in the final collection
	noteObs := func(k string, as attribute.Set, v float64) {
		if id, ok := as.Value("cb"); ok {
			if obsGot[k] == nil {
				obsGot[k] = map[int]float64{}
			}
			obsGot[k][int(id.AsInt64())] = v
		}
	}
	for _, sm := range final.ScopeMetrics {
		for _, m := range sm.Metrics {
			k := sm.Scope.Name + "/" + m.Name
			switch d := m.Data.(type) {
			case metricdata.Sum[int64]:
				for _, dp := range d.DataPoints {
					got[k] += dp.Value
				}
			case metricdata.Sum[float64]:
				for _, dp := range d.DataPoints {
					got[k] += int64(dp.Value)
				}
			case metricdata.Histogram[int64]:
				for _, dp := range d.DataPoints {
					got[k] += dp.Sum
				}
			case metricdata.Histogram[float64]:
				for _, dp := range d.DataPoints {
					got[k] += int64(dp.Sum)
				}
			case metricdata.Gauge[int64]:
				for _, dp := range d.DataPoints {
					if b, ok := dp.Attributes.Value("bit"); ok && dp.Value == int64(1)<<b.AsInt64() {
						got[k] |= dp.Value
					}
					noteObs(k, dp.Attributes, float64(dp.Value))
				}
			case metricdata.Gauge[float64]:
				for _, dp := range d.DataPoints {
					if b, ok := dp.Attributes.Value("bit"); ok && dp.Value == float64(int64(1)<<b.AsInt64()) {
						got[k] |= int64(dp.Value)
					}
					noteObs(k, dp.Attributes, dp.Value)
				}
			}
			// observations of asynchronous sums carry the callback's id
			switch d := m.Data.(type) {
			case metricdata.Sum[int64]:
				for _, dp := range d.DataPoints {
					noteObs(k, dp.Attributes, float64(dp.Value))
				}
			case metricdata.Sum[float64]:
				for _, dp := range d.DataPoints {
					noteObs(k, dp.Attributes, dp.Value)
				}
			}
		}
	}
	for _, op := range w.meas {
		if op.ret == 0 {
			continue
		}
		k := op.h.key.meter + "/" + op.h.key.name
		present := got[k]&(int64(1)<<op.bit) != 0
		switch {
		case w.setMP == nil || w.setMP.Ret == 0:
			if present {
				r.Violate(prop, "phantom-measurement", "phantom-measurement", "%s bit=%d reached the SDK although SetMeterProvider was never called", op.h.key, op.bit)
			}
		case op.inv > w.setMP.Ret && !present:
			what := "lost-measurement"
			sig := "lost-measurement"
			if op.probe {
				what, sig = "unconnected-instrument", "unconnected-instrument"
				if op.h.ret > w.setMP.Inv && op.h.inv < w.setMP.Ret {
					sig += "/created-during-installation"
				}
			}
			r.Violate(prop, what, sig, "%s (instrument created %d..%d): measurement bit=%d made at %d..%d, after SetMeterProvider returned at %d, did not reach the SDK", op.h.key, op.h.inv, op.h.ret, op.bit, op.inv, op.ret, w.setMP.Ret)
		case op.ret < w.setMP.Inv && present:
			r.Violate(prop, "phantom-measurement", "phantom-measurement", "%s bit=%d (made at %d..%d, before SetMeterProvider was invoked at %d) reached the SDK", op.h.key, op.bit, op.inv, op.ret, w.setMP.Inv)
		}
	}
	for _, sp := range w.spans {
		if sp.ret == 0 {
			continue
		}
		n := rp.ended[sp.name]
		switch {
		case n > 1:
			r.Violate(prop, "span-delivered-twice", "span-delivered-twice", "span %s reached the SDK %d times", sp.name, n)
		case w.setTP == nil || w.setTP.Ret == 0:
			if n > 0 {
				r.Violate(prop, "phantom-span", "phantom-span", "span %s reached the SDK although SetTracerProvider was never called", sp.name)
			}
		case sp.inv > w.setTP.Ret && n == 0:
			sig, extra := "lost-span", ""
			if sp.th != nil {
				sig = "unconnected-tracer"
				extra = fmt.Sprintf(" (through the tracer object obtained at %d..%d)", sp.th.inv, sp.th.ret)
				if sp.th.ret > w.setTP.Inv && sp.th.inv < w.setTP.Ret {
					sig += "/obtained-during-installation"
				}
			}
			r.Violate(prop, "lost-span", sig, "span %s started at %d, after SetTracerProvider returned at %d, did not reach the SDK%s", sp.name, sp.inv, w.setTP.Ret, extra)
		case sp.ret < w.setTP.Inv && n > 0:
			r.Violate(prop, "phantom-span", "phantom-span", "span %s (made at %d..%d, before SetTracerProvider was invoked at %d) reached the SDK", sp.name, sp.inv, sp.ret, w.setTP.Inv)
		}
	}
	// callbacks: per SDK collection, exactly once if registered and not unregistered, never twice
	if w.setMP != nil && w.setMP.Ret != 0 {
		for _, c := range w.colls {
			if c.Ret == 0 || c.Err != nil {
				continue
			}
			for _, cb := range w.cbs {
				n := 0
				for i := range cb.calls {
					if cb.callColl[i] == c.Inv {
						n++
					}
				}
				if n > 1 {
					r.Violate(prop, "callback-twice", "callback-twice", "callback %d (%s) was invoked %d times by the collection %d..%d: it is registered with the SDK more than once", cb.id, cb.key, n, c.Inv, c.Ret)
				}
				mustRun := cb.regRet != 0 && cb.regRet < c.Inv && cb.unInv == 0 && c.Inv > w.setMP.Ret
				mustNot := cb.unRet != 0 && cb.unRet < c.Inv
				if mustRun && n == 0 {
					r.Violate(prop, "callback-not-invoked", "callback-not-invoked", "callback %d (%s, registered %d..%d, never unregistered) was not invoked by the collection %d..%d after SetMeterProvider returned at %d", cb.id, cb.key, cb.regInv, cb.regRet, c.Inv, c.Ret, w.setMP.Ret)
				}
				if mustNot && n > 0 {
					r.Violate(prop, "callback-after-unregister", "callback-after-unregister", "callback %d (%s) whose Unregister returned at %d was invoked by the collection %d..%d", cb.id, cb.key, cb.unRet, c.Inv, c.Ret)
				}
				// what the callback observed for this collection is in this collection's data, once
				if obs, have := collObs[c.Inv]; have && mustRun && n == 1 && cb.reg != nil {
					if v := obs[cb.key.meter+"/"+cb.key.name][cb.id]; v != float64(1000+cb.id) {
						r.Violate(prop, "observation-lost", "observation-misrouted/"+cb.key.kind, "callback %d observed %d on %s for the collection %d..%d (task %s), whose data holds %v for it", cb.id, 1000+cb.id, cb.key, c.Inv, c.Ret, c.Task, v)
					}
				}
			}
		}
		// what the callbacks observed must be in the data: the final collection (made at quiescence) holds,
		// for every callback still registered, its value under its own attribute set on its instrument
		if fc := w.colls[len(w.colls)-1]; fc.Ret != 0 && fc.Err == nil && fc.Inv > w.setMP.Ret {
			for _, cb := range w.cbs {
				k := cb.key.meter + "/" + cb.key.name
				v, present := obsGot[k][cb.id]
				switch {
				case cb.reg != nil && cb.regRet != 0 && cb.unInv == 0:
					if !present || v != float64(1000+cb.id) {
						r.Violate(prop, "observation-lost", "observation-lost/"+cb.key.kind, "callback %d observed %d on %s during the final collection %d..%d, the collected data holds %v (present %v)", cb.id, 1000+cb.id, cb.key, fc.Inv, fc.Ret, v, present)
					}
				case cb.unRet != 0 && cb.unRet < fc.Inv && present:
					r.Violate(prop, "callback-after-unregister", "observation-after-unregister/"+cb.key.kind, "the final collection %d..%d holds an observation of callback %d on %s, whose Unregister returned at %d", fc.Inv, fc.Ret, cb.id, cb.key, cb.unRet)
				}
			}
		}
	}
}
