module verif

go 1.26.0

toolchain go1.26.8

require (
	github.com/anishathalye/porcupine v1.3.0
	github.com/go-logr/logr v1.4.2
	github.com/prometheus/client_golang v1.22.0
	github.com/prometheus/client_model v0.6.2
	github.com/prometheus/common v0.63.0
	go.opentelemetry.io/otel v1.35.0
	go.opentelemetry.io/otel/exporters/otlp/otlplog/otlploggrpc v0.0.0
	go.opentelemetry.io/otel/exporters/otlp/otlplog/otlploghttp v0.0.0
	go.opentelemetry.io/otel/exporters/otlp/otlpmetric/otlpmetricgrpc v0.0.0
	go.opentelemetry.io/otel/exporters/otlp/otlpmetric/otlpmetrichttp v0.0.0
	go.opentelemetry.io/otel/exporters/otlp/otlptrace v1.35.0
	go.opentelemetry.io/otel/exporters/otlp/otlptrace/otlptracegrpc v0.0.0
	go.opentelemetry.io/otel/exporters/otlp/otlptrace/otlptracehttp v0.0.0
	go.opentelemetry.io/otel/exporters/prometheus v0.0.0
	go.opentelemetry.io/otel/exporters/stdout/stdoutlog v0.0.0
	go.opentelemetry.io/otel/exporters/stdout/stdoutmetric v0.0.0
	go.opentelemetry.io/otel/exporters/stdout/stdouttrace v0.0.0
	go.opentelemetry.io/otel/log v0.11.0
	go.opentelemetry.io/otel/metric v1.35.0
	go.opentelemetry.io/otel/sdk v1.35.0
	go.opentelemetry.io/otel/sdk/log v0.11.0
	go.opentelemetry.io/otel/sdk/metric v1.35.0
	go.opentelemetry.io/otel/trace v1.35.0
	go.opentelemetry.io/proto/otlp v1.5.0
	google.golang.org/genproto/googleapis/rpc v0.0.0-20250414145226-207652e42e2e
	google.golang.org/grpc v1.71.1
	google.golang.org/protobuf v1.36.6
)

require (
	github.com/beorn7/perks v1.0.1 // indirect
	github.com/cenkalti/backoff/v5 v5.0.2 // indirect
	github.com/cespare/xxhash/v2 v2.3.0 // indirect
	github.com/go-logr/stdr v1.2.2 // indirect
	github.com/google/uuid v1.6.0 // indirect
	github.com/grpc-ecosystem/grpc-gateway/v2 v2.26.1 // indirect
	github.com/munnerz/goautoneg v0.0.0-20191010083416-a7dc8b61c822 // indirect
	github.com/prometheus/procfs v0.16.0 // indirect
	go.opentelemetry.io/auto/sdk v1.1.0 // indirect
	golang.org/x/mod v0.41.0 // indirect
	golang.org/x/net v0.39.0 // indirect
	golang.org/x/sync v0.23.0 // indirect
	golang.org/x/sys v0.48.0 // indirect
	golang.org/x/text v0.24.0 // indirect
	google.golang.org/genproto/googleapis/api v0.0.0-20250414145226-207652e42e2e // indirect
)

replace (
	go.opentelemetry.io/otel => /repo
	go.opentelemetry.io/otel/exporters/otlp/otlplog/otlploggrpc => /repo/exporters/otlp/otlplog/otlploggrpc
	go.opentelemetry.io/otel/exporters/otlp/otlplog/otlploghttp => /repo/exporters/otlp/otlplog/otlploghttp
	go.opentelemetry.io/otel/exporters/otlp/otlpmetric/otlpmetricgrpc => /repo/exporters/otlp/otlpmetric/otlpmetricgrpc
	go.opentelemetry.io/otel/exporters/otlp/otlpmetric/otlpmetrichttp => /repo/exporters/otlp/otlpmetric/otlpmetrichttp
	go.opentelemetry.io/otel/exporters/otlp/otlptrace => /repo/exporters/otlp/otlptrace
	go.opentelemetry.io/otel/exporters/otlp/otlptrace/otlptracegrpc => /repo/exporters/otlp/otlptrace/otlptracegrpc
	go.opentelemetry.io/otel/exporters/otlp/otlptrace/otlptracehttp => /repo/exporters/otlp/otlptrace/otlptracehttp
	go.opentelemetry.io/otel/exporters/prometheus => /repo/exporters/prometheus
	go.opentelemetry.io/otel/exporters/stdout/stdoutlog => /repo/exporters/stdout/stdoutlog
	go.opentelemetry.io/otel/exporters/stdout/stdoutmetric => /repo/exporters/stdout/stdoutmetric
	go.opentelemetry.io/otel/exporters/stdout/stdouttrace => /repo/exporters/stdout/stdouttrace
	go.opentelemetry.io/otel/log => /repo/log
	go.opentelemetry.io/otel/metric => /repo/metric
	go.opentelemetry.io/otel/sdk => /repo/sdk
	go.opentelemetry.io/otel/sdk/log => /repo/sdk/log
	go.opentelemetry.io/otel/sdk/metric => /repo/sdk/metric
	go.opentelemetry.io/otel/trace => /repo/trace
)
