//go:build race

package simrt

import (
	"runtime"
	"unsafe"
)

// RaceEnabled reports whether this binary was built with the race detector. In such a build the
// simulator hides its own synchronisation (token hand-over, task table lock) from the detector, so
// that the happens-before relation the detector sees is the one the code under test establishes by
// itself: two accesses that the simulator merely happened to run one after the other are reported
// as the data race they would be on real threads.
const RaceEnabled = true

//go:norace
func raceOff() { runtime.RaceDisable() }

//go:norace
func raceOn() { runtime.RaceEnable() }

//go:norace
func raceAcquire(p unsafe.Pointer) { runtime.RaceAcquire(p) }

//go:norace
func raceReleaseMerge(p unsafe.Pointer) { runtime.RaceReleaseMerge(p) }

// RaceErrors is the number of races the detector has reported in this process so far.
//
//go:norace
func RaceErrors() int { return runtime.RaceErrors() }

// gword holds the token holder's g. The race build reads and writes it plainly (from norace code):
// a task only ever compares it with its own g, which the scheduler stores before granting the token
// over a channel and which only the task itself clears, so the plain accesses are ordered by the
// hand-over itself - and, unlike an atomic, they add no happens-before edge between tasks.
type gword struct{ v uintptr }

//go:norace
func (w *gword) Load() uintptr { return w.v }

//go:norace
func (w *gword) Store(x uintptr) { w.v = x }
