// Package simrt is the runtime half of the deterministic simulator: a token-passing scheduler that runs
// as the root goroutine of a testing/synctest bubble, plus the entry points that instrumented code
// (produced by simgen) and hand-written harness code call at every synchronisation step.
//
// Exactly one registered task "holds the token" at any time. Every other task is either parked inside
// simrt (waiting for the scheduler to grant it the token) or durably blocked inside a Go runtime
// operation (channel, timer, WaitGroup, net.Pipe ...). The scheduler decides from the choice tape which
// parked task runs next and when simulated time is allowed to move. With no simulation active every
// entry point is a load-and-branch around the original operation.
package simrt

import (
	"fmt"
	"runtime"
	"runtime/debug"
	"sort"
	"strconv"
	"sync"
	"sync/atomic"
	"testing/synctest"
	"time"
	"unsafe"
)

func getg() uintptr

type state uint8

const (
	stRunning state = iota // holds the token (or is believed to)
	stParked               // waiting for a grant inside simrt.park
	stBlocked              // blocked inside a runtime operation (or running uninstrumented code without the token)
	stDone
)

type waitKind uint8

const (
	wkNone waitKind = iota
	wkMutexW
	wkMutexR
	wkOnce
	wkJoin
)

// Task is one simulated goroutine.
type Task struct {
	ID       int
	Name     string
	Workload bool
	Foreign  bool

	g      uintptr
	goid   uint64
	state  state
	grant  chan struct{}
	point  uint32
	wk     waitKind
	want   unsafe.Pointer
	consec int
	inline int
	steps  int
	prio   int

	stepsAtForce  int
	held          bool
	sinceProgress int

	exiting  bool
	mismatch int
}

// Config holds the per-run scheduler parameters (swarm-drawn by the engine).
type Config struct {
	MaxSteps     int           // scheduling-step budget; exhausting it is "inconclusive", never a violation
	MaxIdle      time.Duration // cumulative simulated time spent with *no runnable task* (forced waits) after which a run with unfinished workload tasks is a hang. Time that the tape lets pass while tasks are runnable (the stalled-node fault) does not count: nothing may be demanded of an unfair schedule.
	TimeSteps    []time.Duration
	AdvanceDenom int  // with runnable tasks, let time pass instead with probability 1/AdvanceDenom per step (0: never)
	YieldDenom   int  // at a sync point the holder parks with probability 1/YieldDenom (1: always)
	PlainRange   int  // plain-point preemption: next countdown drawn from [0,PlainRange), 0 = never again (0: disabled)
	Foreign      bool // control goroutines created by uninstrumented code once they reach an instrumented point
	// PCT > 0 selects the priority-based strategy (Burckhardt et al., PCT): every task gets a random
	// priority when it is created, the runnable task with the highest priority always runs, and at
	// PCT-1 step numbers drawn uniformly from [1, PCTSteps] the running task drops below all others.
	// It finds orderings of depth PCT that a random walk reaches only with vanishing probability
	// (e.g. "this task runs to completion while those two stay parked inside their operation").
	PCT      int
	PCTSteps int
	// HoldOrdinal > 0 selects the location-hold strategy: the HoldOrdinal-th distinct point at which a
	// task parks in this run becomes the hold point; every task that parks there is kept back until
	// nothing else can run (then all held tasks are released together). This lines several tasks up
	// inside the same window of the code under test - e.g. after a "stopped?" check and before the
	// enqueue it guards - while another task (a Shutdown) runs to completion.
	HoldOrdinal int
}

// OutcomeKind classifies how a run ended.
type OutcomeKind int

const (
	Done OutcomeKind = iota
	Deadlock
	Hang
	Budget
	Fatal
)

//go:norace
func (k OutcomeKind) String() string {
	return [...]string{"done", "deadlock", "hang", "budget", "fatal"}[k]
}

// Outcome is the scheduler's verdict on a run.
type Outcome struct {
	Kind   OutcomeKind
	Detail string
}

// PanicInfo records a panic that escaped a simulated goroutine.
type PanicInfo struct {
	Task  string
	Value string
	Stack string
}

type shadowMu struct {
	writer  *Task
	readers readerSet
}

// shadowPool is the per-run stand-in of a sync.Pool (see PoolGet).
type shadowPool struct {
	items []any
	_     int // (never zero-sized: its address serves as the race detector's synchronisation variable)
}

type shadowOnce struct {
	running bool
	done    bool
	owner   *Task
}

// Sim is one simulated run.
type Sim struct {
	mu    sync.Mutex // protects the task table; never held across a park
	Tape  *Tape
	cfg   Config
	tasks []*Task
	byG   umap[*Task]
	cur   *Task
	curG  gword
	rootG uintptr
	wake  chan struct{}
	last  *Task

	mutexes umap[*shadowMu]
	onces   umap[*shadowOnce]
	ptrIDs  umap[int]
	pools   umap[*shadowPool]

	aborting atomic.Bool
	pcount   int

	forceQuantum time.Duration
	seqAtStep    uint64
	pctChange    []int
	pctLow       int
	holdSeen     *umap[bool]
	holdPoint    uint32
	holdReleased bool

	settling    bool
	settleQuiet time.Duration
	settleEnd   int

	start        time.Time
	Idle         time.Duration
	Steps        int
	Advances     int
	sinceAdvance int
	seq          uint64
	Panics       []PanicInfo
	fatal        string

	// race build: the detector's report count when the run started and when the scheduler returned
	RaceErrsAtStart, RaceErrsAtEnd int

	// statistics
	Switches   int
	sig        uint64
	SwitchPair map[[2]uint32]struct{}
	Trace      []TraceEv
	Tail       []TraceEv // the last TraceTail decisions beyond TraceCap (debugging aid, not hashed)
	TraceTail  int
	TraceCap   int
	NSync      int
	NPlainPre  int
	NInline    int
	PointsHit  map[uint32]struct{}
}

// TraceEv is one scheduler decision: task granted at point, or a time advance.
type TraceEv struct {
	Step  int    `json:"step"`
	Task  string `json:"task,omitempty"`
	Point uint32 `json:"point,omitempty"`
	AdvNs int64  `json:"adv_ns,omitempty"`
	NowNs int64  `json:"now_ns"`
}

var active atomic.Pointer[Sim]

// Active returns the running simulation or nil.
//
//go:norace
func Active() *Sim { return active.Load() }

// lock/unlock guard the task table. The lock is simulator machinery: the race detector must not take
// it for synchronisation of the code under test (see RaceEnabled).
//
//go:norace
func (s *Sim) lock() { raceOff(); s.mu.Lock() }

//go:norace
func (s *Sim) unlock() { s.mu.Unlock(); raceOn() }

// Addresses that carry the harness-level happens-before edges of a race build: opTok orders the
// operations of the workload as the recorded history orders them (an operation that was invoked after
// another one returned happens after it: the harness hands objects from task to task only that way),
// doneTok orders everything a finished task did before whoever waited for it.
var opTok, doneTok int

// New creates a simulation. It must be called from the root goroutine of a synctest bubble.
//
//go:norace
func New(tape *Tape, cfg Config) *Sim {
	if cfg.MaxSteps == 0 {
		cfg.MaxSteps = 20000
	}
	if cfg.MaxIdle == 0 {
		cfg.MaxIdle = time.Hour
	}
	if cfg.YieldDenom == 0 {
		cfg.YieldDenom = 1
	}
	s := &Sim{
		Tape: tape, cfg: cfg,
		wake:       make(chan struct{}, 1),
		rootG:      getg(),
		start:      time.Now(),
		SwitchPair: map[[2]uint32]struct{}{},
		PointsHit:  map[uint32]struct{}{},
		TraceCap:   4000,
		sig:        14695981039346656037,
	}
	s.pcount = 1 << 62
	if cfg.PlainRange > 0 {
		s.drawPlain()
	}
	if cfg.HoldOrdinal > 0 {
		s.holdSeen = &umap[bool]{}
		s.cfg.YieldDenom = 1
	}
	if cfg.PCT > 0 {
		if s.cfg.PCTSteps <= 0 {
			s.cfg.PCTSteps = 200
		}
		for i := 1; i < cfg.PCT; i++ {
			s.pctChange = append(s.pctChange, 1+tape.Draw(StSched, s.cfg.PCTSteps))
		}
		s.cfg.YieldDenom = 1
	}
	s.RaceErrsAtStart = RaceErrors()
	active.Store(s)
	return s
}

//go:norace
func (s *Sim) drawPlain() {
	v := s.Tape.Draw(StSched, s.cfg.PlainRange)
	if v == 0 {
		s.pcount = 1 << 62
	} else {
		s.pcount = v
	}
}

// Now returns simulated time since the start of the run.
//
//go:norace
func (s *Sim) Now() time.Duration { return time.Since(s.start) }

// Stamp returns the next global event sequence number. It must only be called by the token holder or
// by the root goroutine, which makes the numbering a deterministic total order.
//
//go:norace
func (s *Sim) Stamp() uint64 {
	s.seq++
	if RaceEnabled {
		if t := s.cur; t != nil && t.Workload && t.g == getg() {
			raceAcquire(unsafe.Pointer(&opTok))
			raceReleaseMerge(unsafe.Pointer(&opTok))
		}
	}
	return s.seq
}

// HarnessAcquire and HarnessRelease bracket a piece of harness bookkeeping done by a workload task (a
// history line, a counter): in a race build they order such pieces among the workload tasks the way
// Stamp orders operations, so that the instrumented library code they call (fmt, maps, hashes) does
// not look racy on harness state. Goroutines of the code under test that call back into harness stubs
// get no such edges: nothing must order them that the code under test did not order itself.
//
//go:norace
func HarnessAcquire() {
	if RaceEnabled {
		if s := active.Load(); s != nil {
			if t := s.cur; t != nil && t.Workload && t.g == getg() {
				raceAcquire(unsafe.Pointer(&opTok))
			}
		}
	}
}

//go:norace
func HarnessRelease() {
	if RaceEnabled {
		if s := active.Load(); s != nil {
			if t := s.cur; t != nil && t.Workload && t.g == getg() {
				raceReleaseMerge(unsafe.Pointer(&opTok))
			}
		}
	}
}

// Draw consumes an environment choice. Token holder or root only.
//
//go:norace
func (s *Sim) Draw(n int) int { return s.Tape.Draw(StEnv, n) }

//go:norace
func goid() uint64 {
	var buf [64]byte
	n := runtime.Stack(buf[:], false)
	var id uint64
	for _, c := range buf[10:n] {
		if c < '0' || c > '9' {
			break
		}
		id = id*10 + uint64(c-'0')
	}
	return id
}

//go:norace
func (s *Sim) newTask(name string, workload bool) *Task {
	t := &Task{Name: name, Workload: workload, grant: make(chan struct{}), state: stParked}
	s.lock()
	t.ID = len(s.tasks)
	t.prio = -1 // drawn by the scheduler when the task is first considered (token discipline for the tape)
	s.tasks = append(s.tasks, t)
	s.unlock()
	return t
}

//go:norace
func (s *Sim) launch(t *Task, f func()) {
	go func() {
		g := getg()
		s.lock()
		t.g = g
		s.byG.put(g, t)
		s.unlock()
		defer s.exit(t, g)
		raceOff()
		<-t.grant
		raceOn()
		if s.aborting.Load() {
			return
		}
		f()
		raceReleaseMerge(unsafe.Pointer(&doneTok))
	}()
}

//go:norace
func (s *Sim) exit(t *Task, g uintptr) {
	if r := recover(); r != nil {
		pi := PanicInfo{Task: t.Name, Value: fmt.Sprint(r), Stack: string(debug.Stack())}
		s.lock()
		s.Panics = append(s.Panics, pi)
		s.unlock()
	}
	s.lock()
	t.state = stDone
	if s.byG.get(g) == t {
		s.byG.del(g)
	}
	if s.cur == t {
		s.cur = nil
		s.curG.Store(0)
	}
	s.unlock()
}

// Spawn starts a workload task. The run ends when every workload task has finished.
//
//go:norace
func (s *Sim) Spawn(name string, f func()) {
	t := s.newTask(name, true)
	s.launch(t, f)
}

// SpawnBG starts a background (non-workload) harness task.
//
//go:norace
func (s *Sim) SpawnBG(name string, f func()) {
	t := s.newTask(name, false)
	s.launch(t, f)
}

// Go replaces the go statement in instrumented code.
//
//go:norace
func Go(id uint32, f func()) {
	s := active.Load()
	if s == nil || s.aborting.Load() {
		go f()
		return
	}
	g := getg()
	if g != s.rootG && s.curG.Load() != g {
		// a stray or uncontrolled goroutine: become a holder first if it is a task, else pass through
		if t := s.arriveSlow(g, id); t == nil {
			go f()
			return
		}
	}
	t := s.newTask(fmt.Sprintf("go@%d", id), false)
	s.launch(t, f)
}

// arrive returns the calling task if it is simulated, after making sure it holds the token.
// nil means: not simulated, perform the original operation directly.
//
//go:norace
func (s *Sim) arrive(id uint32) *Task {
	g := getg()
	if s.curG.Load() == g {
		return s.cur
	}
	return s.arriveSlow(g, id)
}

//go:norace
func (s *Sim) arriveSlow(g uintptr, id uint32) *Task {
	if g == s.rootG {
		return nil
	}
	if s.aborting.Load() {
		// aborted run: a task that is still executing instrumented code exits here; its deferred
		// calls (which re-enter simrt) pass through.
		s.lock()
		t := s.byG.get(g)
		s.unlock()
		if t != nil && !t.exiting {
			t.exiting = true
			runtime.Goexit()
		}
		return nil
	}
	s.lock()
	t := s.byG.get(g)
	if t != nil && t.Foreign && t.goid != goid() {
		t = nil // the g was recycled for another foreign goroutine
	}
	if t == nil {
		if !s.cfg.Foreign {
			s.unlock()
			return nil
		}
		t = &Task{Name: "foreign", Foreign: true, g: g, goid: goid(), grant: make(chan struct{}), state: stBlocked}
		t.ID = len(s.tasks)
		t.Name = "foreign" + strconv.Itoa(t.ID) // (no fmt under the simulator's lock: its printer pool would look shared to the race detector)
		s.tasks = append(s.tasks, t)
		s.byG.put(g, t)
	}
	s.unlock()
	// a task that lost the token while blocked in the runtime (or never had it): queue up for it
	s.park(t, id, wkNone, nil)
	return t
}

//go:norace
func (s *Sim) park(t *Task, id uint32, wk waitKind, want unsafe.Pointer) {
	if s.aborting.Load() {
		s.goexit(t)
		return
	}
	s.lock()
	t.state = stParked
	t.point = id
	t.wk = wk
	t.want = want
	if s.holdSeen != nil && wk == wkNone && id != 0 {
		if s.holdPoint == 0 && !s.holdSeen.has(uintptr(id)) {
			s.holdSeen.put(uintptr(id), true)
			if s.holdSeen.len() == s.cfg.HoldOrdinal {
				s.holdPoint = id
			}
		}
		if id == s.holdPoint && !s.holdReleased {
			t.held = true
		}
	}
	if s.cur == t {
		s.cur = nil
		s.curG.Store(0)
	}
	s.unlock()
	raceOff()
	select {
	case s.wake <- struct{}{}:
	default:
	}
	<-t.grant
	raceOn()
	if s.aborting.Load() {
		s.goexit(t)
	}
}

//go:norace
func (s *Sim) goexit(t *Task) {
	if t.exiting {
		return
	}
	t.exiting = true
	runtime.Goexit()
}

const maxInline = 64

// syncPoint is a scheduling point before a synchronisation operation.
//
//go:norace
func (s *Sim) syncPoint(t *Task, id uint32) {
	s.NSync++
	if s.cfg.YieldDenom > 1 && t.inline < maxInline {
		if s.Tape.Draw(StSched, s.cfg.YieldDenom) != 1 {
			t.inline++
			s.NInline++
			return
		}
	}
	t.inline = 0
	s.park(t, id, wkNone, nil)
}

// post is called after a potentially blocking runtime operation returned.
//
//go:norace
func (s *Sim) post(t *Task, id uint32) {
	if s.curG.Load() == t.g {
		return
	}
	s.park(t, id, wkNone, nil)
}

// P is a plain point: inserted before every statement of instrumented code.
//
//go:norace
func P(id uint32) {
	s := active.Load()
	if s == nil {
		return
	}
	if s.curG.Load() == getg() {
		s.pcount--
		if s.pcount > 0 {
			return
		}
		s.NPlainPre++
		t := s.cur
		s.drawPlain()
		s.park(t, id, wkNone, nil)
		return
	}
	s.arriveSlow(getg(), id)
}

// Sync is a sync point: inserted before statements that perform atomic operations, timer resets,
// context cancellations and the like.
//
//go:norace
func Sync(id uint32) {
	s := active.Load()
	if s == nil {
		return
	}
	if t := s.arrive(id); t != nil {
		s.syncPoint(t, id)
	}
}

// Yield is an unconditional scheduling point for hand-written harness code.
//
//go:norace
func Yield(id uint32) {
	s := active.Load()
	if s == nil {
		return
	}
	if t := s.arrive(id); t != nil {
		s.park(t, id, wkNone, nil)
	}
}

// Woke must follow a blocking operation performed by hand-written harness code.
//
//go:norace
func Woke(id uint32) {
	s := active.Load()
	if s == nil {
		return
	}
	s.arrive(id)
}

// Sleep replaces time.Sleep.
//
//go:norace
func Sleep(d time.Duration, id uint32) {
	s := active.Load()
	if s == nil {
		time.Sleep(d)
		return
	}
	t := s.arrive(id)
	if t == nil {
		time.Sleep(d)
		return
	}
	s.syncPoint(t, id)
	time.Sleep(d)
	s.post(t, id)
}

// Fail records a fatal harness-detected condition (checked by the scheduler after the current step).
//
//go:norace
func (s *Sim) Fail(msg string) {
	s.lock()
	if s.fatal == "" {
		s.fatal = msg
	}
	s.unlock()
}

//go:norace
func (s *Sim) enabled(t *Task) bool {
	switch t.wk {
	case wkMutexW:
		sh := s.mutexes.get(up(t.want))
		return sh == nil || (sh.writer == nil && sh.readers.len() == 0)
	case wkMutexR:
		sh := s.mutexes.get(up(t.want))
		return sh == nil || sh.writer == nil
	case wkOnce:
		sh := s.onces.get(up(t.want))
		return sh == nil || !sh.running
	case wkJoin:
		for _, o := range s.tasks {
			if o != t && o.Workload && o.state != stDone && !(o.state == stParked && o.wk == wkJoin) {
				return false
			}
		}
		return true
	}
	return true
}

// JoinOthers parks the calling workload task until every other workload task has finished.
//
//go:norace
func (s *Sim) JoinOthers(id uint32) {
	t := s.arrive(id)
	if t == nil {
		return
	}
	s.park(t, id, wkJoin, nil)
	raceAcquire(unsafe.Pointer(&doneTok))
}

// lockCycle looks for a cycle in the shadow wait-for graph.
//
//go:norace
func (s *Sim) lockCycle() string {
	holderOf := func(t *Task) []*Task {
		switch t.wk {
		case wkMutexW:
			if sh := s.mutexes.get(up(t.want)); sh != nil {
				var hs []*Task
				if sh.writer != nil {
					hs = append(hs, sh.writer)
				}
				for _, r := range sh.readers.t {
					hs = append(hs, r)
				}
				sort.Slice(hs, func(i, j int) bool { return hs[i].ID < hs[j].ID })
				return hs
			}
		case wkMutexR:
			if sh := s.mutexes.get(up(t.want)); sh != nil && sh.writer != nil {
				return []*Task{sh.writer}
			}
		case wkOnce:
			if sh := s.onces.get(up(t.want)); sh != nil && sh.running && sh.owner != nil {
				return []*Task{sh.owner}
			}
		}
		return nil
	}
	for _, t0 := range s.tasks {
		if t0.state != stParked || t0.wk == wkNone || s.enabled(t0) {
			continue
		}
		// DFS following blocked-on edges
		seen := map[*Task]bool{}
		var path []*Task
		var dfs func(t *Task) bool
		dfs = func(t *Task) bool {
			if t == t0 && len(path) > 0 {
				return true
			}
			if seen[t] {
				return false
			}
			seen[t] = true
			if t.state != stParked || t.wk == wkNone || s.enabled(t) {
				return false
			}
			path = append(path, t)
			for _, h := range holderOf(t) {
				if dfs(h) {
					return true
				}
			}
			path = path[:len(path)-1]
			return false
		}
		if dfs(t0) {
			msg := "lock cycle:"
			for _, t := range path {
				msg += fmt.Sprintf(" %s waits@%d;", t.Name, t.point)
			}
			return msg
		}
	}
	return ""
}

const fairLimit = 300
const forceAdvanceEvery = 500

// Settle keeps scheduling after the workload has finished so that background tasks (drains, final
// exports) can come to rest: it returns when nothing is runnable and nothing wakes up within quiet
// simulated time, or after maxSteps further steps.
//
//go:norace
func (s *Sim) Settle(maxSteps int, quiet time.Duration) Outcome {
	s.settling = true
	s.settleQuiet = quiet
	s.settleEnd = s.Steps + maxSteps
	return s.Run()
}

// Run drives the simulation until every workload task has finished or the run is cut short.
// It must be called from the bubble's root goroutine.
//
//go:norace
func (s *Sim) Run() Outcome {
	raceOff()
	out := s.run()
	raceOn()
	raceAcquire(unsafe.Pointer(&doneTok))
	raceAcquire(unsafe.Pointer(&opTok))
	s.RaceErrsAtEnd = RaceErrors()
	return out
}

//go:norace
func (s *Sim) run() Outcome {
	for {
		synctest.Wait()
		s.lock()
		if s.cur != nil && s.cur.state == stRunning {
			s.cur.state = stBlocked
			s.cur = nil
			s.curG.Store(0)
		}
		if len(s.Panics) > 0 {
			p := s.Panics[0]
			s.unlock()
			return Outcome{Fatal, "panic in " + p.Task + ": " + p.Value}
		}
		if s.fatal != "" {
			f := s.fatal
			s.unlock()
			return Outcome{Fatal, f}
		}
		var cands []*Task
		alive := 0
		blocked := 0
		for _, t := range s.tasks {
			if t.Workload && t.state != stDone {
				alive++
			}
			if t.state == stBlocked && !t.Foreign {
				blocked++
			}
			if t.state == stParked && s.enabled(t) && !t.held {
				cands = append(cands, t)
			}
		}
		if len(cands) == 0 || s.sinceAdvance >= forceAdvanceEvery {
			// nothing else can run - or what runs has been going for a long stretch of steps without any
			// harness-visible progress (a spin loop in the code under test that waits for a held task):
			// release the tasks lined up at the hold point, once
			for _, t := range s.tasks {
				if t.held {
					t.held = false
					s.holdReleased = true
					if t.state == stParked && s.enabled(t) {
						cands = append(cands, t)
					}
				}
			}
		}
		if alive == 0 && !s.settling {
			s.unlock()
			return Outcome{Done, ""}
		}
		if s.settling && (s.Steps >= s.settleEnd || s.Steps >= s.cfg.MaxSteps) {
			s.unlock()
			return Outcome{Done, "settle budget"}
		}
		if cyc := s.lockCycle(); cyc != "" {
			s.unlock()
			return Outcome{Deadlock, cyc}
		}
		if s.Steps >= s.cfg.MaxSteps {
			s.unlock()
			return Outcome{Budget, fmt.Sprintf("step budget %d exhausted", s.cfg.MaxSteps)}
		}
		now := s.Now()
		if s.Idle >= s.cfg.MaxIdle {
			d := s.describeAlive()
			s.unlock()
			return Outcome{Hang, fmt.Sprintf("workload unfinished after %v of forced idle time (%v simulated): %s", s.Idle, now, d)}
		}
		s.Steps++
		if s.seq != s.seqAtStep {
			for _, t := range s.tasks {
				t.sinceProgress = 0
			}
			// the harness recorded an event (an operation was invoked or returned, a stub was called):
			// the system is making progress, this is not a spin loop starving a timer
			s.seqAtStep = s.seq
			s.sinceAdvance = 0
			// ... and the escalation of forced waits starts over: it is meant to reach the idle budget of a
			// system that is stuck, not to add up over the many short waits of one that keeps going
			s.forceQuantum = 0
		}
		// let time pass?
		adv := time.Duration(-1)
		if len(cands) == 0 && s.settling {
			s.Advances++
			s.unlock()
			select {
			case <-s.wake:
			default:
			}
			tm := time.NewTimer(s.settleQuiet)
			select {
			case <-s.wake:
				tm.Stop()
				continue
			case <-tm.C:
				return Outcome{Done, "settled"}
			}
		}
		forced := false
		if len(cands) == 0 {
			adv = s.cfg.MaxIdle - s.Idle
			forced = true
		} else if s.sinceAdvance >= forceAdvanceEvery && blocked > 0 {
			// runnable tasks have been going for a long stretch of steps while others are blocked in
			// the runtime (possibly on timers): a task that polls for their progress (a spin loop in the
			// code under test) would otherwise starve them of simulated time
			// The wait escalates (x4 per forced advance) instead of spending the whole idle budget at
			// once: a run that is merely long must not be mistaken for a hang.
			if s.forceQuantum == 0 {
				s.forceQuantum = time.Millisecond
			}
			adv = min(s.forceQuantum, s.cfg.MaxIdle-s.Idle)
			s.forceQuantum *= 4
			forced = true
		} else if s.cfg.AdvanceDenom > 0 && len(s.cfg.TimeSteps) > 0 && s.Tape.Draw(StSched, s.cfg.AdvanceDenom) == 1 {
			adv = s.cfg.TimeSteps[s.Tape.Draw(StSched, len(s.cfg.TimeSteps))]
		}
		if adv >= 0 {
			s.sinceAdvance = 0
			s.Advances++
			s.unlock()
			select {
			case <-s.wake:
			default:
			}
			before := s.Now()
			tm := time.NewTimer(adv)
			select {
			case <-s.wake:
				tm.Stop()
			case <-tm.C:
			}
			if forced {
				// Forced idle time only counts towards the hang verdict if the schedule has been fair
				// since the last forced wait: every task that is runnable now has run at least once.
				// A starved runnable task (PCT priorities, an adversarial replay tape) means nothing
				// can be demanded of this schedule.
				fair := true
				s.lock()
				for _, t := range s.tasks {
					if t.state == stParked && s.enabled(t) && t.steps == t.stepsAtForce {
						fair = false
					}
					t.stepsAtForce = t.steps
				}
				s.unlock()
				if fair || len(cands) == 0 {
					s.Idle += s.Now() - before
				}
			}
			s.traceEv(TraceEv{Step: s.Steps, AdvNs: int64(s.Now() - before), NowNs: int64(s.Now())})
			continue
		}
		s.sinceAdvance++
		// choose: previous holder first (choice 0 = "keep going"), then by id
		if s.last != nil {
			for i, t := range cands {
				if t == s.last {
					copy(cands[1:i+1], cands[:i])
					cands[0] = t
					break
				}
			}
		}
		var pick *Task
		if s.cfg.PCT > 0 {
			for _, t := range cands {
				if t.prio < 0 {
					t.prio = 1000 + s.Tape.Draw(StSched, 100000)
				}
			}
			best := func() *Task {
				var b *Task
				for _, t := range cands {
					if b == nil || t.prio > b.prio || (t.prio == b.prio && t.ID < b.ID) {
						b = t
					}
				}
				return b
			}
			pick = best()
			for _, at := range s.pctChange {
				if at == s.Steps {
					s.pctLow++
					pick.prio = 1000 - s.pctLow // below every initial priority, above later demotions' successors
					pick = best()
				}
			}
			// starvation guard: a task that has been granted fairLimit steps since the harness last saw
			// progress (spin loops in the code under test, possibly several taking turns) drops below
			// the tasks it may be waiting for
			for pick.sinceProgress > fairLimit && len(cands) > 1 {
				s.pctLow++
				pick.prio = 1000 - s.pctLow
				pick.sinceProgress = 0
				pick = best()
			}
			pick.sinceProgress++
		} else {
			pick = cands[s.Tape.Draw(StSched, len(cands))]
		}
		if pick == s.last {
			pick.consec++
			if pick.consec > fairLimit && len(cands) > 1 {
				pick = cands[1+(s.Steps%(len(cands)-1))]
				pick.consec = 0
			}
		} else {
			pick.consec = 0
		}
		if pick != s.last {
			s.Switches++
			var from uint32
			if s.last != nil {
				from = s.last.point
			}
			s.SwitchPair[[2]uint32{from, pick.point}] = struct{}{}
			// FNV-1a over (previous signature, role, point); no fmt here: the scheduler runs with the race
			// detector's synchronisation tracking off, where pooled printers would look shared
			h := s.sig
			for _, c := range []byte(roleOf(pick.Name)) {
				h = (h ^ uint64(c)) * 1099511628211
			}
			for i := 0; i < 4; i++ {
				h = (h ^ uint64(byte(pick.point>>(8*i)))) * 1099511628211
			}
			s.sig = (h ^ 0xff) * 1099511628211
		}
		s.PointsHit[pick.point] = struct{}{}
		s.last = pick
		pick.state = stRunning
		pick.wk = wkNone
		pick.steps++
		s.cur = pick
		s.curG.Store(pick.g)
		s.traceEv(TraceEv{Step: s.Steps, Task: pick.Name, Point: pick.point, NowNs: int64(now)})
		s.unlock()
		pick.grant <- struct{}{}
	}
}

//go:norace
func roleOf(name string) string {
	// strip trailing digits so that "ender0" and "ender1" share a role
	i := len(name)
	for i > 0 && name[i-1] >= '0' && name[i-1] <= '9' {
		i--
	}
	return name[:i]
}

//go:norace
func (s *Sim) traceEv(e TraceEv) {
	if len(s.Trace) < s.TraceCap {
		s.Trace = append(s.Trace, e)
	} else if s.TraceTail > 0 {
		// (debugging aid: keep the most recent decisions as well)
		if len(s.Tail) >= s.TraceTail {
			s.Tail = s.Tail[1:]
		}
		s.Tail = append(s.Tail, e)
	}
}

//go:norace
func (s *Sim) describeAlive() string {
	out := ""
	for _, t := range s.tasks {
		if t.state == stDone {
			continue
		}
		st := [...]string{"running", "parked", "blocked", "done"}[t.state]
		out += fmt.Sprintf(" %s:%s@%d", t.Name, st, t.point)
		if t.held {
			out += "(held)"
		}
		if t.state == stParked && !s.enabled(t) {
			out += fmt.Sprintf("(not enabled: wait kind %d)", t.wk)
		}
		if t.state == stParked && (t.wk == wkMutexW || t.wk == wkMutexR) {
			if sh := s.mutexes.get(up(t.want)); sh != nil {
				if sh.writer != nil {
					out += fmt.Sprintf("(waits for a mutex held by %s, which is %s)", sh.writer.Name, [...]string{"running", "parked", "blocked", "done"}[sh.writer.state])
				}
				for _, rd := range sh.readers.t {
					out += fmt.Sprintf("(waits for a mutex read-held by %s)", rd.Name)
				}
			}
		}
	}
	return out
}

// Signature returns the hash of the sequence of context switches of this run.
//
//go:norace
func (s *Sim) Signature() uint64 { return s.sig }

// Finish ends the simulation: every parked task is made to exit (runtime.Goexit, so deferred calls
// run), tasks that wake up later exit at their next instrumented point. Must be called by root.
//
//go:norace
func (s *Sim) Finish() {
	s.aborting.Store(true)
	s.lock()
	for _, t := range s.tasks {
		if t.state == stParked {
			t.state = stBlocked
			close(t.grant)
		}
	}
	s.cur = nil
	s.curG.Store(0)
	s.unlock()
}

// Release detaches the finished simulation from the process.
//
//go:norace
func (s *Sim) Release() {
	active.CompareAndSwap(s, nil)
}

// TaskNames lists the tasks of the run (for reports).
//
//go:norace
func (s *Sim) TaskNames() []string {
	s.lock()
	defer s.unlock()
	var out []string
	for _, t := range s.tasks {
		out = append(out, t.Name)
	}
	return out
}

// CurrentTask returns the name of the calling task ("root" for the scheduler goroutine, "" if unknown).
//
//go:norace
func (s *Sim) CurrentTask() string {
	g := getg()
	if g == s.rootG {
		return "root"
	}
	if s.curG.Load() == g {
		return s.cur.Name
	}
	s.lock()
	defer s.unlock()
	if t := s.byG.get(g); t != nil {
		return t.Name
	}
	return ""
}
