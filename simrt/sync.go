package simrt

import (
	"fmt"
	"reflect"
	"sort"
	"sync"
	"unsafe"
)

func (s *Sim) shadow(p unsafe.Pointer) *shadowMu {
	sh := s.mutexes[p]
	if sh == nil {
		sh = &shadowMu{readers: map[*Task]int{}}
		s.mutexes[p] = sh
	}
	return sh
}

// MuLock replaces (*sync.Mutex).Lock.
func MuLock(m *sync.Mutex, id uint32) {
	s := active.Load()
	if s == nil {
		m.Lock()
		return
	}
	t := s.arrive(id)
	if t == nil {
		if s.aborting.Load() && getg() != s.rootG {
			if !m.TryLock() {
				s.abortExit()
			}
			return
		}
		m.Lock()
		return
	}
	s.syncPoint(t, id)
	p := unsafe.Pointer(m)
	for {
		s.mu.Lock()
		sh := s.shadow(p)
		free := sh.writer == nil && len(sh.readers) == 0
		if free && m.TryLock() {
			sh.writer = t
			s.mu.Unlock()
			return
		}
		s.mu.Unlock()
		if free {
			// shadow and real state disagree (locked by uninstrumented code): keep yielding
			t.mismatch++
			if t.mismatch > 300 {
				s.Fail(fmt.Sprintf("simrt: mutex at point %d is really locked but shadow-free for 300 consecutive attempts of %s (locked outside the simulator's view)", id, t.Name))
			}
			s.park(t, id, wkNone, nil)
		} else {
			t.mismatch = 0
			s.park(t, id, wkMutexW, p)
		}
	}
}

// abortExit terminates the calling goroutine of an aborted run that cannot make progress.
func (s *Sim) abortExit() {
	s.mu.Lock()
	t := s.byG[getg()]
	s.mu.Unlock()
	if t != nil {
		s.goexit(t)
	}
	// a goroutine that is already running its deferred calls, or an unknown one: block durably so
	// that the dying bubble can be torn down.
	select {}
}

// MuUnlock replaces (*sync.Mutex).Unlock.
func MuUnlock(m *sync.Mutex, id uint32) {
	s := active.Load()
	if s == nil {
		m.Unlock()
		return
	}
	t := s.arrive(id)
	p := unsafe.Pointer(m)
	s.mu.Lock()
	if sh := s.mutexes[p]; sh != nil {
		sh.writer = nil
	}
	s.mu.Unlock()
	m.Unlock()
	if t != nil {
		s.syncPoint(t, id)
	}
}

// MuTryLock replaces (*sync.Mutex).TryLock.
func MuTryLock(m *sync.Mutex, id uint32) bool {
	s := active.Load()
	if s == nil {
		return m.TryLock()
	}
	t := s.arrive(id)
	if t == nil {
		return m.TryLock()
	}
	s.syncPoint(t, id)
	ok := m.TryLock()
	if ok {
		s.mu.Lock()
		s.shadow(unsafe.Pointer(m)).writer = t
		s.mu.Unlock()
	}
	return ok
}

// RWLock replaces (*sync.RWMutex).Lock.
func RWLock(m *sync.RWMutex, id uint32) {
	s := active.Load()
	if s == nil {
		m.Lock()
		return
	}
	t := s.arrive(id)
	if t == nil {
		if s.aborting.Load() && getg() != s.rootG {
			if !m.TryLock() {
				s.abortExit()
			}
			return
		}
		m.Lock()
		return
	}
	s.syncPoint(t, id)
	p := unsafe.Pointer(m)
	for {
		s.mu.Lock()
		sh := s.shadow(p)
		free := sh.writer == nil && len(sh.readers) == 0
		if free && m.TryLock() {
			sh.writer = t
			s.mu.Unlock()
			return
		}
		s.mu.Unlock()
		if free {
			s.park(t, id, wkNone, nil)
		} else {
			s.park(t, id, wkMutexW, p)
		}
	}
}

// RWUnlock replaces (*sync.RWMutex).Unlock.
func RWUnlock(m *sync.RWMutex, id uint32) {
	s := active.Load()
	if s == nil {
		m.Unlock()
		return
	}
	t := s.arrive(id)
	p := unsafe.Pointer(m)
	s.mu.Lock()
	if sh := s.mutexes[p]; sh != nil {
		sh.writer = nil
	}
	s.mu.Unlock()
	m.Unlock()
	if t != nil {
		s.syncPoint(t, id)
	}
}

// RWRLock replaces (*sync.RWMutex).RLock.
func RWRLock(m *sync.RWMutex, id uint32) {
	s := active.Load()
	if s == nil {
		m.RLock()
		return
	}
	t := s.arrive(id)
	if t == nil {
		if s.aborting.Load() && getg() != s.rootG {
			if !m.TryRLock() {
				s.abortExit()
			}
			return
		}
		m.RLock()
		return
	}
	s.syncPoint(t, id)
	p := unsafe.Pointer(m)
	for {
		s.mu.Lock()
		sh := s.shadow(p)
		free := sh.writer == nil
		if free && m.TryRLock() {
			sh.readers[t]++
			s.mu.Unlock()
			return
		}
		s.mu.Unlock()
		if free {
			s.park(t, id, wkNone, nil)
		} else {
			s.park(t, id, wkMutexR, p)
		}
	}
}

// RWRUnlock replaces (*sync.RWMutex).RUnlock.
func RWRUnlock(m *sync.RWMutex, id uint32) {
	s := active.Load()
	if s == nil {
		m.RUnlock()
		return
	}
	t := s.arrive(id)
	p := unsafe.Pointer(m)
	s.mu.Lock()
	if sh := s.mutexes[p]; sh != nil {
		g := getg()
		if t := s.byG[g]; t != nil && sh.readers[t] > 0 {
			sh.readers[t]--
			if sh.readers[t] == 0 {
				delete(sh.readers, t)
			}
		} else {
			// released by another goroutine than the one that acquired it: drop any one reader
			for r := range sh.readers {
				sh.readers[r]--
				if sh.readers[r] == 0 {
					delete(sh.readers, r)
				}
				break
			}
		}
	}
	s.mu.Unlock()
	m.RUnlock()
	if t != nil {
		s.syncPoint(t, id)
	}
}

// OnceDo replaces (*sync.Once).Do. While a simulation is active the real Once is never touched: the
// per-simulation shadow state alone decides, so every run sees every Once (including package-level
// ones that an earlier run in the same process has already fired) as fresh - the semantics of a
// fresh process. Concurrent callers park until the running call finishes, as with the real Once.
func OnceDo(o *sync.Once, f func(), id uint32) {
	s := active.Load()
	if s == nil {
		o.Do(f)
		return
	}
	g := getg()
	var t *Task
	if g != s.rootG {
		t = s.arrive(id)
		if t == nil {
			if s.aborting.Load() {
				return // torn-down run: never start new once-bodies
			}
			o.Do(f) // uncontrolled goroutine
			return
		}
		s.syncPoint(t, id)
	}
	p := unsafe.Pointer(o)
	for {
		s.mu.Lock()
		sh := s.onces[p]
		if sh == nil {
			sh = &shadowOnce{}
			s.onces[p] = sh
		}
		if sh.done {
			s.mu.Unlock()
			return
		}
		if !sh.running {
			sh.running = true
			sh.owner = t
			s.mu.Unlock()
			defer func() {
				s.mu.Lock()
				sh.running = false
				sh.done = true
				s.mu.Unlock()
			}()
			f()
			return
		}
		s.mu.Unlock()
		if t == nil || sh.owner == t {
			// re-entrant call: the real Once would deadlock here
			if t == nil {
				panic("simrt: re-entrant sync.Once.Do from the root goroutine")
			}
			s.park(t, id, wkOnce, p)
			continue
		}
		s.park(t, id, wkOnce, p)
	}
}

// OnceFunc replaces sync.OnceFunc.
func OnceFunc(f func()) func() {
	o := new(sync.Once)
	return func() { OnceDo(o, f, 0) }
}

// OnceValue replaces sync.OnceValue.
func OnceValue[T any](f func() T) func() T {
	o := new(sync.Once)
	var r T
	return func() T {
		OnceDo(o, func() { r = f() }, 0)
		return r
	}
}

// WgWait replaces (*sync.WaitGroup).Wait.
func WgWait(wg *sync.WaitGroup, id uint32) {
	s := active.Load()
	if s == nil {
		wg.Wait()
		return
	}
	t := s.arrive(id)
	if t == nil {
		wg.Wait()
		return
	}
	s.syncPoint(t, id)
	wg.Wait()
	s.post(t, id)
}

// WgAdd replaces (*sync.WaitGroup).Add.
func WgAdd(wg *sync.WaitGroup, n int, id uint32) {
	Sync(id)
	wg.Add(n)
}

// WgDone replaces (*sync.WaitGroup).Done.
func WgDone(wg *sync.WaitGroup, id uint32) {
	Sync(id)
	wg.Done()
}

// Send replaces ch <- v.
func Send[T any](c chan<- T, v T, id uint32) {
	s := active.Load()
	if s == nil {
		c <- v
		return
	}
	t := s.arrive(id)
	if t == nil {
		c <- v
		return
	}
	s.syncPoint(t, id)
	c <- v
	s.post(t, id)
}

// Recv replaces <-ch.
func Recv[T any](c <-chan T, id uint32) T {
	v, _ := Recv2(c, id)
	return v
}

// Recv2 replaces v, ok := <-ch.
func Recv2[T any](c <-chan T, id uint32) (T, bool) {
	s := active.Load()
	if s == nil {
		v, ok := <-c
		return v, ok
	}
	t := s.arrive(id)
	if t == nil {
		v, ok := <-c
		return v, ok
	}
	s.syncPoint(t, id)
	v, ok := <-c
	s.post(t, id)
	return v, ok
}

// Close replaces close(ch).
func Close[T any](c chan<- T, id uint32) {
	Sync(id)
	close(c)
}

// ZeroOf returns the zero value of a receive channel's element type (used to declare typed
// temporaries in rewritten select statements without spelling the type).
func ZeroOf[T any](c <-chan T) (z T) { return }

// ElemOf converts v to the element type of a send channel.
func ElemOf[T any](c chan<- T, v T) T { return v }

// TryRecv polls one receive case.
func TryRecv[T any](c <-chan T) (v T, ok bool, got bool) {
	select {
	case v, ok = <-c:
		got = true
	default:
	}
	return
}

// TrySend polls one send case.
func TrySend[T any](c chan<- T, v T) bool {
	select {
	case c <- v:
		return true
	default:
		return false
	}
}

// SelEnter is the scheduling point in front of a rewritten select statement. It returns the order
// in which the n communication cases are polled.
func SelEnter(n int, id uint32) []int {
	order := make([]int, n)
	for i := range order {
		order[i] = i
	}
	s := active.Load()
	if s == nil {
		// uncontrolled: still randomise like the runtime would, cheaply
		return order
	}
	t := s.arrive(id)
	if t == nil {
		return order
	}
	s.syncPoint(t, id)
	// tape-driven Fisher-Yates; all-zero draws yield the identity (source order)
	for i := 0; i < n-1; i++ {
		j := i + s.Tape.Draw(StEnv, n-i)
		order[i], order[j] = order[j], order[i]
	}
	return order
}

// SelWoke follows the blocking phase of a rewritten select.
func SelWoke(id uint32) {
	s := active.Load()
	if s == nil {
		return
	}
	s.arrive(id)
}

// MapKeys returns the keys of m in a deterministic order permuted by the tape.
func MapKeys[M ~map[K]V, K comparable, V any](m M, id uint32) []K {
	keys := make([]K, 0, len(m))
	for k := range m {
		keys = append(keys, k)
	}
	if len(keys) < 2 {
		return keys
	}
	s := active.Load()
	if s == nil {
		return keys
	}
	g := getg()
	if s.curG.Load() != g && g != s.rootG {
		return keys
	}
	// canonical base order
	rend := make([]string, len(keys))
	for i, k := range keys {
		rend[i] = s.canon(reflect.ValueOf(&k).Elem())
	}
	idx := make([]int, len(keys))
	for i := range idx {
		idx[i] = i
	}
	sort.SliceStable(idx, func(a, b int) bool { return rend[idx[a]] < rend[idx[b]] })
	out := make([]K, len(keys))
	for i, j := range idx {
		out[i] = keys[j]
	}
	if g != s.rootG && !s.aborting.Load() {
		for i := 0; i < len(out)-1; i++ {
			j := i + s.Tape.Draw(StEnv, len(out)-i)
			out[i], out[j] = out[j], out[i]
		}
	}
	return out
}

// canon renders a map key so that equal program states render equally in every process:
// pointers are replaced by first-seen sequence numbers.
func (s *Sim) canon(v reflect.Value) string {
	switch v.Kind() {
	case reflect.Pointer, reflect.UnsafePointer, reflect.Chan, reflect.Func, reflect.Map:
		if v.IsNil() {
			return "nil"
		}
		p := v.UnsafePointer()
		s.mu.Lock()
		id, ok := s.ptrIDs[p]
		if !ok {
			id = len(s.ptrIDs) + 1
			s.ptrIDs[p] = id
		}
		s.mu.Unlock()
		return fmt.Sprintf("p%08d", id)
	case reflect.Interface:
		if v.IsNil() {
			return "nil"
		}
		e := v.Elem()
		return e.Type().String() + ":" + s.canon(e)
	case reflect.Struct:
		out := "{"
		for i := 0; i < v.NumField(); i++ {
			out += s.canon(v.Field(i)) + ","
		}
		return out + "}"
	case reflect.Array:
		out := "["
		for i := 0; i < v.Len(); i++ {
			out += s.canon(v.Index(i)) + ","
		}
		return out + "]"
	case reflect.String:
		return fmt.Sprintf("%q", v.String())
	case reflect.Bool:
		return fmt.Sprint(v.Bool())
	case reflect.Int, reflect.Int8, reflect.Int16, reflect.Int32, reflect.Int64:
		return fmt.Sprintf("%020d", uint64(v.Int())^(1<<63))
	case reflect.Uint, reflect.Uint8, reflect.Uint16, reflect.Uint32, reflect.Uint64, reflect.Uintptr:
		return fmt.Sprintf("%020d", v.Uint())
	case reflect.Float32, reflect.Float64:
		return fmt.Sprintf("%v", v.Float())
	case reflect.Complex64, reflect.Complex128:
		return fmt.Sprintf("%v", v.Complex())
	}
	return "?"
}

// PoolGet replaces (*sync.Pool).Get. What a pool returns depends on garbage collection and on earlier
// runs in the same process; code that branches on the capacity of a recycled object would make the
// run irreproducible. Inside a simulation a pool therefore never recycles (always New), which the
// sync.Pool contract allows.
func PoolGet(p *sync.Pool) any {
	if active.Load() == nil {
		return p.Get()
	}
	if p.New != nil {
		return p.New()
	}
	return nil
}

// PoolPut replaces (*sync.Pool).Put.
func PoolPut(p *sync.Pool, x any) {
	if active.Load() == nil {
		p.Put(x)
	}
}
