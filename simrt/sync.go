package simrt

import (
	"fmt"
	"reflect"
	"sort"
	"sync"
	"unsafe"
)

//go:norace
func (s *Sim) shadow(p unsafe.Pointer) *shadowMu {
	sh := s.mutexes.get(up(p))
	if sh == nil {
		sh = &shadowMu{}
		s.mutexes.put(up(p), sh)
	}
	return sh
}

// MuLock replaces (*sync.Mutex).Lock.
//
//go:norace
func MuLock(m *sync.Mutex, id uint32) {
	s := active.Load()
	if s == nil {
		m.Lock()
		return
	}
	t := s.arrive(id)
	if t == nil {
		if s.aborting.Load() && getg() != s.rootG {
			if !m.TryLock() {
				s.abortExit()
			}
			return
		}
		m.Lock()
		return
	}
	s.syncPoint(t, id)
	p := unsafe.Pointer(m)
	for {
		s.lock()
		sh := s.shadow(p)
		free := sh.writer == nil && sh.readers.len() == 0
		s.unlock()
		if free && m.TryLock() { // (the real lock is taken outside the simulator's own critical section: the race detector sees it)
			s.lock()
			sh.writer = t
			s.unlock()
			return
		}
		if free {
			// shadow and real state disagree (locked by uninstrumented code): keep yielding
			t.mismatch++
			if t.mismatch > 300 {
				s.Fail(fmt.Sprintf("simrt: mutex at point %d is really locked but shadow-free for 300 consecutive attempts of %s (locked outside the simulator's view)", id, t.Name))
			}
			s.park(t, id, wkNone, nil)
		} else {
			t.mismatch = 0
			s.park(t, id, wkMutexW, p)
		}
	}
}

// abortExit terminates the calling goroutine of an aborted run that cannot make progress.
//
//go:norace
func (s *Sim) abortExit() {
	s.lock()
	t := s.byG.get(getg())
	s.unlock()
	if t != nil {
		s.goexit(t)
	}
	// a goroutine that is already running its deferred calls, or an unknown one: block durably so
	// that the dying bubble can be torn down.
	select {}
}

// MuUnlock replaces (*sync.Mutex).Unlock.
//
//go:norace
func MuUnlock(m *sync.Mutex, id uint32) {
	s := active.Load()
	if s == nil {
		m.Unlock()
		return
	}
	t := s.arrive(id)
	p := unsafe.Pointer(m)
	s.lock()
	if sh := s.mutexes.get(up(p)); sh != nil {
		sh.writer = nil
	}
	s.unlock()
	m.Unlock()
	if t != nil {
		s.syncPoint(t, id)
	}
}

// MuTryLock replaces (*sync.Mutex).TryLock.
//
//go:norace
func MuTryLock(m *sync.Mutex, id uint32) bool {
	s := active.Load()
	if s == nil {
		return m.TryLock()
	}
	t := s.arrive(id)
	if t == nil {
		return m.TryLock()
	}
	s.syncPoint(t, id)
	ok := m.TryLock()
	if ok {
		s.lock()
		s.shadow(unsafe.Pointer(m)).writer = t
		s.unlock()
	}
	return ok
}

// RWLock replaces (*sync.RWMutex).Lock.
//
//go:norace
func RWLock(m *sync.RWMutex, id uint32) {
	s := active.Load()
	if s == nil {
		m.Lock()
		return
	}
	t := s.arrive(id)
	if t == nil {
		if s.aborting.Load() && getg() != s.rootG {
			if !m.TryLock() {
				s.abortExit()
			}
			return
		}
		m.Lock()
		return
	}
	s.syncPoint(t, id)
	p := unsafe.Pointer(m)
	for {
		s.lock()
		sh := s.shadow(p)
		free := sh.writer == nil && sh.readers.len() == 0
		s.unlock()
		if free && m.TryLock() { // (the real lock is taken outside the simulator's own critical section: the race detector sees it)
			s.lock()
			sh.writer = t
			s.unlock()
			return
		}
		if free {
			s.park(t, id, wkNone, nil)
		} else {
			s.park(t, id, wkMutexW, p)
		}
	}
}

// RWUnlock replaces (*sync.RWMutex).Unlock.
//
//go:norace
func RWUnlock(m *sync.RWMutex, id uint32) {
	s := active.Load()
	if s == nil {
		m.Unlock()
		return
	}
	t := s.arrive(id)
	p := unsafe.Pointer(m)
	s.lock()
	if sh := s.mutexes.get(up(p)); sh != nil {
		sh.writer = nil
	}
	s.unlock()
	m.Unlock()
	if t != nil {
		s.syncPoint(t, id)
	}
}

// RWRLock replaces (*sync.RWMutex).RLock.
//
//go:norace
func RWRLock(m *sync.RWMutex, id uint32) {
	s := active.Load()
	if s == nil {
		m.RLock()
		return
	}
	t := s.arrive(id)
	if t == nil {
		if s.aborting.Load() && getg() != s.rootG {
			if !m.TryRLock() {
				s.abortExit()
			}
			return
		}
		m.RLock()
		return
	}
	s.syncPoint(t, id)
	p := unsafe.Pointer(m)
	for {
		s.lock()
		sh := s.shadow(p)
		free := sh.writer == nil
		s.unlock()
		if free && m.TryRLock() {
			s.lock()
			sh.readers.inc(t)
			s.unlock()
			return
		}
		if free {
			s.park(t, id, wkNone, nil)
		} else {
			s.park(t, id, wkMutexR, p)
		}
	}
}

// RWRUnlock replaces (*sync.RWMutex).RUnlock.
//
//go:norace
func RWRUnlock(m *sync.RWMutex, id uint32) {
	s := active.Load()
	if s == nil {
		m.RUnlock()
		return
	}
	t := s.arrive(id)
	p := unsafe.Pointer(m)
	s.lock()
	if sh := s.mutexes.get(up(p)); sh != nil {
		sh.readers.dec(s.byG.get(getg()))
	}
	s.unlock()
	m.RUnlock()
	if t != nil {
		s.syncPoint(t, id)
	}
}

// OnceDo replaces (*sync.Once).Do. While a simulation is active the real Once is never touched: the
// per-simulation shadow state alone decides, so every run sees every Once (including package-level
// ones that an earlier run in the same process has already fired) as fresh - the semantics of a
// fresh process. Concurrent callers park until the running call finishes, as with the real Once.
//
//go:norace
func OnceDo(o *sync.Once, f func(), id uint32) {
	s := active.Load()
	if s == nil {
		o.Do(f)
		return
	}
	g := getg()
	var t *Task
	if g != s.rootG {
		t = s.arrive(id)
		if t == nil {
			if s.aborting.Load() {
				return // torn-down run: never start new once-bodies
			}
			o.Do(f) // uncontrolled goroutine
			return
		}
		s.syncPoint(t, id)
	}
	p := unsafe.Pointer(o)
	for {
		s.lock()
		sh := s.onces.get(up(p))
		if sh == nil {
			sh = &shadowOnce{}
			s.onces.put(up(p), sh)
		}
		if sh.done {
			s.unlock()
			raceAcquire(p) // what the real Once guarantees: the body happens before every Do returns
			return
		}
		if !sh.running {
			sh.running = true
			sh.owner = t
			s.unlock()
			defer func() {
				raceReleaseMerge(p)
				s.lock()
				sh.running = false
				sh.done = true
				s.unlock()
			}()
			f()
			return
		}
		s.unlock()
		if t == nil || sh.owner == t {
			// re-entrant call: the real Once would deadlock here
			if t == nil {
				panic("simrt: re-entrant sync.Once.Do from the root goroutine")
			}
			s.park(t, id, wkOnce, p)
			continue
		}
		s.park(t, id, wkOnce, p)
	}
}

// OnceFunc replaces sync.OnceFunc.
//
//go:norace
func OnceFunc(f func()) func() {
	o := new(sync.Once)
	return func() { OnceDo(o, f, 0) }
}

// OnceValue replaces sync.OnceValue.
//
//go:norace
func OnceValue[T any](f func() T) func() T {
	o := new(sync.Once)
	var r T
	return func() T {
		OnceDo(o, func() { r = f() }, 0)
		return r
	}
}

// WgWait replaces (*sync.WaitGroup).Wait.
//
//go:norace
func WgWait(wg *sync.WaitGroup, id uint32) {
	s := active.Load()
	if s == nil {
		wg.Wait()
		return
	}
	t := s.arrive(id)
	if t == nil {
		wg.Wait()
		return
	}
	s.syncPoint(t, id)
	wg.Wait()
	s.post(t, id)
}

// WgAdd replaces (*sync.WaitGroup).Add.
//
//go:norace
func WgAdd(wg *sync.WaitGroup, n int, id uint32) {
	Sync(id)
	wg.Add(n)
}

// WgDone replaces (*sync.WaitGroup).Done.
//
//go:norace
func WgDone(wg *sync.WaitGroup, id uint32) {
	Sync(id)
	wg.Done()
}

// Send replaces ch <- v.
//
//go:norace
func Send[T any](c chan<- T, v T, id uint32) {
	s := active.Load()
	if s == nil {
		c <- v
		return
	}
	t := s.arrive(id)
	if t == nil {
		c <- v
		return
	}
	s.syncPoint(t, id)
	c <- v
	s.post(t, id)
}

// Recv replaces <-ch.
//
//go:norace
func Recv[T any](c <-chan T, id uint32) T {
	v, _ := Recv2(c, id)
	return v
}

// Recv2 replaces v, ok := <-ch.
//
//go:norace
func Recv2[T any](c <-chan T, id uint32) (T, bool) {
	s := active.Load()
	if s == nil {
		v, ok := <-c
		return v, ok
	}
	t := s.arrive(id)
	if t == nil {
		v, ok := <-c
		return v, ok
	}
	s.syncPoint(t, id)
	v, ok := <-c
	s.post(t, id)
	return v, ok
}

// Close replaces close(ch).
//
//go:norace
func Close[T any](c chan<- T, id uint32) {
	Sync(id)
	close(c)
}

// ZeroOf returns the zero value of a receive channel's element type (used to declare typed
// temporaries in rewritten select statements without spelling the type).
//
//go:norace
func ZeroOf[T any](c <-chan T) (z T) { return }

// ElemOf converts v to the element type of a send channel.
//
//go:norace
func ElemOf[T any](c chan<- T, v T) T { return v }

// TryRecv polls one receive case.
//
//go:norace
func TryRecv[T any](c <-chan T) (v T, ok bool, got bool) {
	select {
	case v, ok = <-c:
		got = true
	default:
	}
	return
}

// TrySend polls one send case.
//
//go:norace
func TrySend[T any](c chan<- T, v T) bool {
	select {
	case c <- v:
		return true
	default:
		return false
	}
}

// SelEnter is the scheduling point in front of a rewritten select statement. It returns the order
// in which the n communication cases are polled.
//
//go:norace
func SelEnter(n int, id uint32) []int {
	order := make([]int, n)
	for i := range order {
		order[i] = i
	}
	s := active.Load()
	if s == nil {
		// uncontrolled: still randomise like the runtime would, cheaply
		return order
	}
	t := s.arrive(id)
	if t == nil {
		return order
	}
	s.syncPoint(t, id)
	// tape-driven Fisher-Yates; all-zero draws yield the identity (source order)
	for i := 0; i < n-1; i++ {
		j := i + s.Tape.Draw(StEnv, n-i)
		order[i], order[j] = order[j], order[i]
	}
	return order
}

// SelWoke follows the blocking phase of a rewritten select.
//
//go:norace
func SelWoke(id uint32) {
	s := active.Load()
	if s == nil {
		return
	}
	s.arrive(id)
}

// MapKeys returns the keys of m in a deterministic order permuted by the tape.
//
//go:norace
func MapKeys[M ~map[K]V, K comparable, V any](m M, id uint32) []K {
	keys := make([]K, 0, len(m))
	for k := range m {
		keys = append(keys, k)
	}
	if len(keys) < 2 {
		return keys
	}
	s := active.Load()
	if s == nil {
		return keys
	}
	g := getg()
	if s.curG.Load() != g && g != s.rootG {
		return keys
	}
	// canonical base order
	rend := make([]string, len(keys))
	for i, k := range keys {
		rend[i] = s.canon(reflect.ValueOf(&k).Elem())
	}
	idx := make([]int, len(keys))
	for i := range idx {
		idx[i] = i
	}
	sort.SliceStable(idx, func(a, b int) bool { return rend[idx[a]] < rend[idx[b]] })
	out := make([]K, len(keys))
	for i, j := range idx {
		out[i] = keys[j]
	}
	if g != s.rootG && !s.aborting.Load() {
		for i := 0; i < len(out)-1; i++ {
			j := i + s.Tape.Draw(StEnv, len(out)-i)
			out[i], out[j] = out[j], out[i]
		}
	}
	return out
}

// canon renders a map key so that equal program states render equally in every process:
// pointers are replaced by first-seen sequence numbers.
//
//go:norace
func (s *Sim) canon(v reflect.Value) string {
	switch v.Kind() {
	case reflect.Pointer, reflect.UnsafePointer, reflect.Chan, reflect.Func, reflect.Map:
		if v.IsNil() {
			return "nil"
		}
		p := v.UnsafePointer()
		s.lock()
		id := s.ptrIDs.get(up(p))
		if id == 0 {
			id = s.ptrIDs.len() + 1
			s.ptrIDs.put(up(p), id)
		}
		s.unlock()
		return fmt.Sprintf("p%08d", id)
	case reflect.Interface:
		if v.IsNil() {
			return "nil"
		}
		e := v.Elem()
		return e.Type().String() + ":" + s.canon(e)
	case reflect.Struct:
		out := "{"
		for i := 0; i < v.NumField(); i++ {
			out += s.canon(v.Field(i)) + ","
		}
		return out + "}"
	case reflect.Array:
		out := "["
		for i := 0; i < v.Len(); i++ {
			out += s.canon(v.Index(i)) + ","
		}
		return out + "]"
	case reflect.String:
		return fmt.Sprintf("%q", v.String())
	case reflect.Bool:
		return fmt.Sprint(v.Bool())
	case reflect.Int, reflect.Int8, reflect.Int16, reflect.Int32, reflect.Int64:
		return fmt.Sprintf("%020d", uint64(v.Int())^(1<<63))
	case reflect.Uint, reflect.Uint8, reflect.Uint16, reflect.Uint32, reflect.Uint64, reflect.Uintptr:
		return fmt.Sprintf("%020d", v.Uint())
	case reflect.Float32, reflect.Float64:
		return fmt.Sprintf("%v", v.Float())
	case reflect.Complex64, reflect.Complex128:
		return fmt.Sprintf("%v", v.Complex())
	}
	return "?"
}

// PoolGet replaces (*sync.Pool).Get. What a real pool returns depends on garbage collection, on the P the
// caller runs on and on earlier runs in the same process, which would make a run irreproducible. Inside a
// simulation every pool therefore has a per-run shadow: Put pushes onto it, and Get - when the shadow is
// not empty - lets the tape decide between handing back the most recently put object and a fresh one
// (both are within the sync.Pool contract). Recycling is thus explored deterministically: code that
// returns an object to a pool while somebody still refers to it gets it handed out again.
//
//go:norace
func PoolGet(p *sync.Pool) any {
	s := active.Load()
	if s == nil {
		return p.Get()
	}
	g := getg()
	if !s.aborting.Load() && (g == s.rootG || s.curG.Load() == g) {
		s.lock()
		sh := s.pools.get(up(unsafe.Pointer(p)))
		var x any
		if sh != nil && len(sh.items) > 0 && s.Tape.Draw(StEnv, 2) == 1 {
			x = sh.items[len(sh.items)-1]
			sh.items = sh.items[:len(sh.items)-1]
		}
		s.unlock()
		if x != nil {
			raceAcquire(unsafe.Pointer(sh)) // what the real pool guarantees: Put happens before the Get that returns the object
			return x
		}
	}
	if p.New != nil {
		return p.New()
	}
	return nil
}

// PoolPut replaces (*sync.Pool).Put.
//
//go:norace
func PoolPut(p *sync.Pool, x any) {
	s := active.Load()
	if s == nil {
		p.Put(x)
		return
	}
	g := getg()
	if x == nil || s.aborting.Load() || !(g == s.rootG || s.curG.Load() == g) {
		return // dropped (allowed): uncontrolled goroutine or a run being torn down
	}
	s.lock()
	sh := s.pools.get(up(unsafe.Pointer(p)))
	if sh == nil {
		sh = &shadowPool{}
		s.pools.put(up(unsafe.Pointer(p)), sh)
	}
	keep := len(sh.items) < 8
	if keep {
		sh.items = append(sh.items, x)
	}
	s.unlock()
	if keep {
		raceReleaseMerge(unsafe.Pointer(sh))
	}
}
