package simrt

import "unsafe"

// umap is a small open-addressing hash table keyed by a word. The simulator's own tables are touched
// by whichever task holds the token; the runtime's built-in map reports its accesses to the race
// detector from inside the runtime (even for callers compiled with go:norace), which in a race build -
// where the token hand-over is hidden from the detector on purpose - would flood the log with reports
// about the simulator itself. This table is plain slices read and written by norace code.
type umap[V any] struct {
	keys []uintptr // 0: empty, 1: deleted
	vals []V
	n    int // live entries
	used int // live + deleted
}

//go:norace
func mix(k uintptr) uintptr {
	x := uint64(k)
	x ^= x >> 33
	x *= 0xff51afd7ed558ccd
	x ^= x >> 33
	return uintptr(x)
}

//go:norace
func (m *umap[V]) find(k uintptr) int {
	if len(m.keys) == 0 {
		return -1
	}
	mask := uintptr(len(m.keys) - 1)
	for i := mix(k) & mask; ; i = (i + 1) & mask {
		switch m.keys[i] {
		case k:
			return int(i)
		case 0:
			return -1
		}
	}
}

//go:norace
func (m *umap[V]) get(k uintptr) (v V) {
	if i := m.find(k + 2); i >= 0 {
		return m.vals[i]
	}
	return v
}

//go:norace
func (m *umap[V]) has(k uintptr) bool { return m.find(k+2) >= 0 }

//go:norace
func (m *umap[V]) put(k uintptr, v V) {
	k += 2 // keep 0 and 1 free for the markers
	if i := m.find(k); i >= 0 {
		m.vals[i] = v
		return
	}
	if (m.used+1)*2 > len(m.keys) {
		m.grow()
	}
	mask := uintptr(len(m.keys) - 1)
	for i := mix(k) & mask; ; i = (i + 1) & mask {
		if m.keys[i] == 0 {
			m.keys[i], m.vals[i] = k, v
			m.n++
			m.used++
			return
		}
	}
}

//go:norace
func (m *umap[V]) del(k uintptr) {
	if i := m.find(k + 2); i >= 0 {
		var z V
		m.keys[i], m.vals[i] = 1, z
		m.n--
	}
}

//go:norace
func (m *umap[V]) grow() {
	ok, ov := m.keys, m.vals
	size := 16
	for size < 4*(m.n+1) {
		size *= 2
	}
	m.keys, m.vals, m.n, m.used = make([]uintptr, size), make([]V, size), 0, 0
	mask := uintptr(size - 1)
	for j, k := range ok {
		if k > 1 {
			for i := mix(k) & mask; ; i = (i + 1) & mask {
				if m.keys[i] == 0 {
					m.keys[i], m.vals[i] = k, ov[j]
					m.n++
					m.used++
					break
				}
			}
		}
	}
}

//go:norace
func (m *umap[V]) len() int { return m.n }

//go:norace
func up(p unsafe.Pointer) uintptr { return uintptr(p) }

// readerSet counts the read locks a task holds on one RWMutex, in acquisition order.
type readerSet struct {
	t []*Task
	n []int
}

//go:norace
func (r *readerSet) inc(t *Task) {
	for i := range r.t {
		if r.t[i] == t {
			r.n[i]++
			return
		}
	}
	r.t, r.n = append(r.t, t), append(r.n, 1)
}

// dec drops one read lock of t, or of the longest-standing reader if t holds none (an RUnlock by
// another goroutine than the one that acquired it).
//
//go:norace
func (r *readerSet) dec(t *Task) {
	if len(r.t) == 0 {
		return
	}
	j := 0
	for i := range r.t {
		if r.t[i] == t {
			j = i
			break
		}
	}
	r.n[j]--
	if r.n[j] == 0 {
		r.t, r.n = append(r.t[:j], r.t[j+1:]...), append(r.n[:j], r.n[j+1:]...)
	}
}

//go:norace
func (r *readerSet) len() int { return len(r.t) }
