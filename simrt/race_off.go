//go:build !race

package simrt

import (
	"sync/atomic"
	"unsafe"
)

// RaceEnabled reports whether this binary was built with the race detector.
const RaceEnabled = false

func raceOff()                        {}
func raceOn()                         {}
func raceAcquire(unsafe.Pointer)      {}
func raceReleaseMerge(unsafe.Pointer) {}

// RaceErrors is the number of races the detector has reported in this process so far.
func RaceErrors() int { return 0 }

type gword struct{ v atomic.Uintptr }

func (w *gword) Load() uintptr   { return w.v.Load() }
func (w *gword) Store(x uintptr) { w.v.Store(x) }
