package simrt

// Tape is the single source of every nondeterministic decision of a simulated run. It is split into
// independent streams so that shrinking the schedule does not shift the meaning of workload or
// environment choices. A stream is a list of small integers; Draw(n) consumes one entry and returns
// entry mod n. In exploration mode missing entries are produced by a per-stream splitmix64 generator
// seeded from (seed, stream); in replay mode missing entries are 0, the "simplest" choice.
type Tape struct {
	Seed    int64      `json:"seed"`
	Streams [][]uint32 `json:"streams"`
	pos     []int
	rng     []uint64
	replay  bool
}

// Stream identifiers.
const (
	StCfg    = 0 // configuration and workload shape (drawn before tasks start)
	StSched  = 1 // scheduler: who runs, whether to yield, time advances
	StEnv    = 2 // environment: stub behaviour, select poll order, map order, network faults
	nStreams = 3
)

// NewTape returns an exploration tape for seed.
//
//go:norace
func NewTape(seed int64) *Tape {
	t := &Tape{Seed: seed, Streams: make([][]uint32, nStreams), pos: make([]int, nStreams), rng: make([]uint64, nStreams)}
	for i := range t.rng {
		t.rng[i] = uint64(seed)*0x9E3779B97F4A7C15 + uint64(i+1)*0xD1B54A32D192ED03
	}
	return t
}

// ReplayTape returns a tape that replays the given streams and yields 0 past their end.
//
//go:norace
func ReplayTape(seed int64, streams [][]uint32) *Tape {
	t := &Tape{Seed: seed, Streams: make([][]uint32, nStreams), pos: make([]int, nStreams), rng: make([]uint64, nStreams), replay: true}
	for i := range streams {
		if i < nStreams {
			t.Streams[i] = append([]uint32(nil), streams[i]...)
		}
	}
	return t
}

//go:norace
func splitmix(x *uint64) uint64 {
	*x += 0x9E3779B97F4A7C15
	z := *x
	z = (z ^ (z >> 30)) * 0xBF58476D1CE4E5B9
	z = (z ^ (z >> 27)) * 0x94D049BB133111EB
	return z ^ (z >> 31)
}

// Draw returns a value in [0,n). n<=1 consumes nothing.
//
//go:norace
func (t *Tape) Draw(stream, n int) int {
	if n <= 1 {
		return 0
	}
	p := t.pos[stream]
	var v uint32
	if p < len(t.Streams[stream]) {
		v = t.Streams[stream][p]
	} else if t.replay {
		v = 0
		t.Streams[stream] = append(t.Streams[stream], 0)
	} else {
		// keep entries small so that the replay file is readable and shrinking by
		// "reduce value" is meaningful: store the reduced value.
		v = uint32(splitmix(&t.rng[stream]) % uint64(n))
		t.Streams[stream] = append(t.Streams[stream], v)
	}
	t.pos[stream] = p + 1
	return int(v % uint32(n))
}

// Consumed returns the consumed prefix of every stream.
//
//go:norace
func (t *Tape) Consumed() [][]uint32 {
	out := make([][]uint32, nStreams)
	for i := range out {
		n := t.pos[i]
		if n > len(t.Streams[i]) {
			n = len(t.Streams[i])
		}
		out[i] = append([]uint32{}, t.Streams[i][:n]...)
	}
	return out
}

// Pos returns the number of entries consumed from stream.
//
//go:norace
func (t *Tape) Pos(stream int) int { return t.pos[stream] }
